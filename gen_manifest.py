#!/usr/bin/env python3
"""Regenerates MANIFEST.json from checks.json (single source of truth for the per-check text)."""
import json, subprocess
cfg = json.load(open("checks.json"))
props = [json.loads(l) for l in open("properties.jsonl")]
ids = [p["id"] for p in props]
hooks = subprocess.run(["git", "-C", "/repo", "log", "--format=%h %s", "--reverse"], capture_output=True, text=True).stdout.splitlines()
hook_commits = [l.split()[0] for l in hooks if "verif-tagged" in l]
checks, na = [], []
for pid in ids:
    c = cfg.get(pid)
    if not c or c.get("not_applicable"):
        na.append({"property_id": pid, "reason": (c or {}).get("not_applicable", "check not built yet")})
        continue
    checks.append({
        "property_id": pid,
        "quick_cmd": "./check %s --tier quick" % pid,
        "thorough_cmd": "./check %s --tier thorough" % pid,
        "evidence_file": "/verif/evidence/%s.json" % pid,
        "replay_cmd_template": "./check %s --replay {path}" % pid,
        "engine": "harness",
        "level_claimed": {"category": c.get("level", "exploration"), "text": c["level_text"], "design_ref": "DESIGN.md section 5, " + pid},
        "level_note": c["level_note"],
        "technique": c["technique"],
    })
m = {
    "version": 1,
    "setup_cmd": "./check --build",
    "hooks": {
        "guard": "verif",
        "enable": "go build tag: go1.26.8 test -tags verif (hook files are *_verif.go with //go:build verif)",
        "baseline_off_cmd": "cd /repo && GOFLAGS=-mod=mod GOPROXY=off GOSUMDB=off GOTOOLCHAIN=local go1.26.8 test -vet=off -count=1 ./...",
        "source_commits": hook_commits,
        "add_only": True,
    },
    "engines": [{"name": "harness", "path": "/verif/harness", "serves_properties": [c["property_id"] for c in checks],
                 "kind_free_text": "Go test binary (pgregory.net/rapid v1.3.0 generators + own trace/DFS choice sources, native go fuzz targets in the thorough tier) linked against /repo via a replace directive; driven by /verif/check"}],
    "checks": checks,
    "not_applicable": na,
    "notes": "All checks are property-based tests / fuzzing against the real code of /repo (rebuilt from its working tree on every run). Known findings: /verif/known_findings.json. Seeds: VERIF_SEED. See DESIGN.md.",
}
json.dump(m, open("MANIFEST.json", "w"), indent=1)
print("checks:", len(checks), "not_applicable:", len(na))
