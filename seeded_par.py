#!/usr/bin/env python3
"""Runs the registered checks against kept seeded changes, several at a time.

  seeded_par.py C07-11 C10-11 ... [--seeds "1 2"] [--jobs 6] [--tier quick] [--also C07-11=C08,C11] [--no-record]

For every change: a scratch worktree of /repo HEAD under /var/tmp/alt-<ID>-<i> gets
seeded/<ID>-<i>/patch.diff applied, `VERIF_ALT_REPO=<worktree> ./check <ID>` runs the check of the
change's property from a private copy of the harness (see ./check), /repo itself is not touched.
The result replaces what_was_run.check_runs / detected_by in meta.json (earlier runs are kept under
earlier_check_runs). Worktree, harness copy and build output are removed afterwards.
"""
import argparse, concurrent.futures as cf, json, os, shutil, subprocess, sys, threading, time

WT_LOCK = threading.Lock()

ENV = dict(os.environ, GOFLAGS="-mod=mod", GOPROXY="off", GOSUMDB="off", GOTOOLCHAIN="local")


def sh(cmd, cwd=None, timeout=3600, env=None):
    p = subprocess.run(cmd, cwd=cwd, env=env or ENV, shell=True, stdout=subprocess.PIPE, stderr=subprocess.STDOUT, text=True, timeout=timeout)
    return p.returncode, p.stdout


def one(change, seeds, tier, also, record):
    pid = change.split("-")[0]
    d = "/verif/seeded/" + change
    wt = "/var/tmp/alt-" + change
    with WT_LOCK:
        sh("git -C /repo worktree remove --force %s" % wt)
        shutil.rmtree(wt, ignore_errors=True)
        rc, out = sh("git -C /repo worktree add -q --detach %s HEAD" % wt)
    if rc:
        return change, None, "worktree: " + out
    runs = []
    try:
        rc, out = sh("git apply %s/patch.diff" % d, cwd=wt)
        if rc:
            # a later fix: commit touched neighbouring lines: try a three-way merge
            rc, out2 = sh("git apply -3 %s/patch.diff" % d, cwd=wt)
            if rc or "with conflicts" in out2:
                return change, None, "patch does not apply: " + out + out2
        env = dict(ENV, VERIF_ALT_REPO=wt)
        for cid in [pid] + also:
            for s in seeds:
                t0 = time.time()
                e = dict(env, VERIF_SEED=str(s))
                rc, out = sh("./check %s --tier %s" % (cid, tier), cwd="/verif", env=e)
                line = [l for l in out.splitlines() if l.startswith(("VIOLATION", "OK ", "INCONCLUSIVE"))]
                runs.append({"check": cid, "seed": int(s), "exit": rc, "wall_s": round(time.time() - t0, 1), "line": (line[0] if line else out[-300:])})
                if rc == 1:
                    break
    finally:
        with WT_LOCK:
            sh("git -C /repo worktree remove --force %s" % wt)
            shutil.rmtree(wt, ignore_errors=True)
        shutil.rmtree("/var/tmp/verif-alt/alt-" + change, ignore_errors=True)
    det = sorted({r["check"] for r in runs if r["exit"] == 1})
    if record:
        mp = os.path.join(d, "meta.json")
        meta = json.load(open(mp))
        w = meta["what_was_run"]
        w.setdefault("earlier_check_runs", []).append({"ran_at": w.get("ran_at"), "runs": w.get("check_runs")})
        w["check_runs"] = runs
        w["detected_by"] = det
        w["ran_at"] = time.strftime("%Y-%m-%dT%H:%M:%SZ", time.gmtime())
        w["checks_at_commit"] = sh("git -C /verif rev-parse --short HEAD")[1].strip()
        json.dump(meta, open(mp, "w"), indent=1)
    return change, det, runs


def main():
    ap = argparse.ArgumentParser()
    ap.add_argument("changes", nargs="+")
    ap.add_argument("--seeds", default="1 2")
    ap.add_argument("--jobs", type=int, default=6)
    ap.add_argument("--tier", default="quick")
    ap.add_argument("--also", default="", help="CHANGE=ID,ID;CHANGE=ID ... other checks to run against a change")
    ap.add_argument("--no-record", action="store_true")
    a = ap.parse_args()
    also = {}
    for part in a.also.split(";"):
        if "=" in part:
            k, v = part.split("=")
            also[k] = [x for x in v.split(",") if x]
    seeds = a.seeds.split()
    with cf.ThreadPoolExecutor(a.jobs) as ex:
        futs = [ex.submit(one, c, seeds, a.tier, also.get(c, []), not a.no_record) for c in a.changes]
        for f in cf.as_completed(futs):
            change, det, runs = f.result()
            if det is None:
                print("%s: ERROR %s" % (change, runs), flush=True)
                continue
            print("%s: detected_by=%s  %s" % (change, det, [(r["check"], r["seed"], r["exit"], r["wall_s"]) for r in runs]), flush=True)


if __name__ == "__main__":
    main()
