#!/bin/bash
# Runs every registered quick check once on the current tree (evidence files are rewritten).
cd /verif
seed=${1:-1}
for id in C01 C02 C03 C04 C05 C06 C07 C08 C09 C10 C11 C12 C13 C14 C15 C16 C17 C18 C19 C20; do
  VERIF_SEED=$seed ./check $id --tier quick 2>&1 | grep -E "^(OK|VIOLATION|INCONCLUSIVE|KNOWN-FINDING|BUILD FAILED)" | cut -c1-300
done
