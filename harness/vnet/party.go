package vnet

import (
	"fmt"

	"github.com/mycoria/mycoria/config"
	"github.com/mycoria/mycoria/m"
	"github.com/mycoria/mycoria/state"
	"github.com/mycoria/mycoria/storage"

	"verif/ids"
)

// Party is an identity with a real state manager (sessions), without router
// modules. Used by the pure crypto/sequence properties.
type Party struct {
	ID  *ids.Identity
	Cfg *config.Config
	St  *state.State
	// Gate, if set, sees every call the state manager makes to the instance
	// and to the storage (schedule points, see Gate).
	Gate *Gate
}

func (p *Party) Identity() *m.Address   { p.Gate.Pass("instance.Identity"); return p.ID.Addr }
func (p *Party) Config() *config.Config { p.Gate.Pass("instance.Config"); return p.Cfg }

// NewGatedParty creates a party whose instance and storage calls pass through a gate.
func NewGatedParty(id *ids.Identity) *Party {
	p := &Party{ID: id, Cfg: config.MakeTestConfig(config.Store{}), Gate: &Gate{}}
	p.St = state.New(p, &GateStorage{Storage: storage.NewMemStorage(), G: p.Gate})
	return p
}

// NewParty creates a party.
func NewParty(id *ids.Identity) *Party {
	p := &Party{ID: id, Cfg: config.MakeTestConfig(config.Store{})}
	p.St = state.New(p, storage.NewMemStorage())
	return p
}

// SessionWith returns p's session for q (adding q's public address first).
func (p *Party) SessionWith(q *Party) *state.Session {
	if err := p.St.AddRouter(&q.ID.Addr.PublicAddress); err != nil {
		panic(err)
	}
	s := p.St.GetSession(q.ID.Addr.IP)
	if s == nil {
		panic("no session")
	}
	return s
}

// KeyExchange runs a complete client/server key exchange between two sessions
// (client = a's session for b, server = b's session for a).
func KeyExchange(client, server *state.Session) error {
	kx, kxt, err := client.Encryption().InitKeyClientStart()
	if err != nil {
		return fmt.Errorf("client start: %w", err)
	}
	rkx, rkxt, err := server.Encryption().InitKeyServer(kx, kxt)
	if err != nil {
		return fmt.Errorf("server: %w", err)
	}
	if err := client.Encryption().InitKeyClientComplete(rkx, rkxt); err != nil {
		return fmt.Errorf("client complete: %w", err)
	}
	client.Encryption().InitCleanup()
	server.Encryption().InitCleanup()
	return nil
}

// EncPair returns two freshly keyed encryption sessions (a's out key is b's in
// key and vice versa), as used for link-layer encryption.
func EncPair() (a, b *state.EncryptionSession, err error) {
	a, b = state.NewEncryptionSession(), state.NewEncryptionSession()
	kx, kxt, err := a.InitKeyClientStart()
	if err != nil {
		return nil, nil, err
	}
	rkx, rkxt, err := b.InitKeyServer(kx, kxt)
	if err != nil {
		return nil, nil, err
	}
	if err := a.InitKeyClientComplete(rkx, rkxt); err != nil {
		return nil, nil, err
	}
	a.InitCleanup()
	b.InitCleanup()
	return a, b, nil
}

// KeyExchangeAsHello sets up new keys the way a hello exchange does: the
// initiator builds a fresh encryption session and installs it when the
// exchange completes, the responder re-keys the encryption session it has.
func KeyExchangeAsHello(client, server *state.Session) error {
	enc := state.NewEncryptionSession()
	kx, kxt, err := enc.InitKeyClientStart()
	if err != nil {
		return fmt.Errorf("client start: %w", err)
	}
	rkx, rkxt, err := server.Encryption().InitKeyServer(kx, kxt)
	if err != nil {
		return fmt.Errorf("server: %w", err)
	}
	if err := enc.InitKeyClientComplete(rkx, rkxt); err != nil {
		return fmt.Errorf("client complete: %w", err)
	}
	enc.InitCleanup()
	server.Encryption().InitCleanup()
	client.SetEncryptionSession(enc)
	return nil
}
