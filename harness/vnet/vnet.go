// Package vnet is a deterministic virtual mesh of real mycoria routers: real
// state, frame builder, router, switch and peering manager per node, connected
// by virtual links (the exported peering.Link interface, registered through
// the exported Peering.AddLink). Nothing runs in background goroutines; the
// caller decides which in-flight frame is delivered next.
package vnet

import (
	"encoding/json"
	"errors"
	"fmt"
	"net"
	"net/netip"
	"os"
	"sync"
	"time"
	"verif/core"

	"github.com/mycoria/mycoria/api/httpapi"
	"github.com/mycoria/mycoria/api/netstack"
	"github.com/mycoria/mycoria/config"
	"github.com/mycoria/mycoria/frame"
	"github.com/mycoria/mycoria/m"
	"github.com/mycoria/mycoria/mgr"
	"github.com/mycoria/mycoria/peering"
	"github.com/mycoria/mycoria/router"
	"github.com/mycoria/mycoria/state"
	"github.com/mycoria/mycoria/storage"
	"github.com/mycoria/mycoria/switchr"
	"github.com/mycoria/mycoria/tun"
	"gopkg.in/yaml.v3"

	"verif/ids"
)

// Node is one real router, wired like instance.go does, minus tun/netstack/API
// and minus Start().
type Node struct {
	Name string
	ID   *ids.Identity
	Cfg  *config.Config

	Store   *storage.MemStorage
	St      *state.State
	Builder *frame.Builder
	Rtr     *router.Router
	Sw      *switchr.Switch
	Peer    *peering.Peering
	Tun     *tun.Device

	// RouterIn is the switch -> router hand-off channel.
	RouterIn chan frame.Frame
	// SwitchIn is the link -> switch channel (used by real links only).
	SwitchIn chan frame.Frame

	Links map[netip.Addr]*VLink
	Net   *Net
	// Gate sees the instance accessor calls of this node's modules.
	Gate *Gate
}

// The instance interfaces of the modules (satisfied structurally).

// (The accessors the modules use while they hold their locks are schedule
// points of the node's gate, see Gate; an unarmed gate lets everything pass.)

func (n *Node) Version() string              { return "v0.0.0-verif" }
func (n *Node) Config() *config.Config       { n.Gate.Pass("instance.Config"); return n.Cfg }
func (n *Node) Identity() *m.Address         { n.Gate.Pass("instance.Identity"); return n.ID.Addr }
func (n *Node) FrameBuilder() *frame.Builder { return n.Builder }
func (n *Node) State() *state.State          { n.Gate.Pass("instance.State"); return n.St }
func (n *Node) NetStack() *netstack.NetStack { return nil }
func (n *Node) API() *httpapi.API            { return nil }
func (n *Node) TunDevice() *tun.Device       { return n.Tun }
func (n *Node) Switch() *switchr.Switch      { n.Gate.Pass("instance.Switch"); return n.Sw }
func (n *Node) Peering() *peering.Peering    { n.Gate.Pass("instance.Peering"); return n.Peer }
func (n *Node) RoutingTable() *m.RoutingTable {
	n.Gate.Pass("instance.RoutingTable")
	return n.Rtr.Table()
}
func (n *Node) IP() netip.Addr { return n.ID.Addr.IP }

// NodeOpts configures a node.
type NodeOpts struct {
	Store config.Store // Router.Address is filled in from the identity.
	// WithTun gives the node a fake tun device made of its exported channels.
	// Without it the config gets disableTun (router rejects all traffic).
	WithTun bool
	// ViaFile ("json" or "yaml") loads the configuration through a file of that
	// type (config.LoadConfig) instead of using the parsed value directly.
	ViaFile string
}

// Net is a set of nodes plus the frames in flight between them.
type Net struct {
	Nodes     []*Node
	ByIP      map[netip.Addr]*Node
	Queue     []*InFlight
	Crossings []*Crossing
	// LogCrossings enables the crossing log (bytes of every frame put on a link).
	LogCrossings bool
	// Panics collects every recovered worker panic.
	Panics []string
	// SendErrs lists the frames a link writer refused (it drops them, as the real writer does).
	SendErrs []string
	seq      int
	// mu guards the fields above where handlers of several workers may append
	// to them at the same time (InjectPar).
	mu sync.Mutex
}

// InFlight is a frame travelling over a virtual link.
type InFlight struct {
	Seq  int
	From *Node
	To   *Node
	// Link is the receiving end's link object (the RecvLink the frame will get).
	Link *VLink
	Data []byte
	Prio bool
}

// Crossing is one logged link crossing.
type Crossing struct {
	Seq      int
	From, To netip.Addr
	Data     []byte
}

// New creates an empty net.
func New() *Net {
	return &Net{ByIP: map[netip.Addr]*Node{}}
}

// AddNode builds a node from a pool identity.
func (vn *Net) AddNode(name string, id *ids.Identity, opts NodeOpts) (*Node, error) {
	st := opts.Store
	st.Router.Address = id.Addr.Store()
	if len(st.Router.Listen) == 0 && len(st.Router.Connect) == 0 && len(st.Router.Bootstrap) == 0 {
		st.Router.Connect = []string{"tcp://192.0.2.1:47369"}
	}
	if !opts.WithTun {
		st.System.DisableTun = true
	}
	cfg, err := st.Parse()
	if err != nil {
		return nil, fmt.Errorf("config: %w", err)
	}
	if opts.ViaFile != "" {
		// The way the program gets its configuration: from a file, written here
		// with the documented key names (JSON and YAML use the same ones).
		fcfg, ferr := LoadViaFile(st, opts.ViaFile)
		if ferr != nil {
			return nil, fmt.Errorf("config accepted as a value is refused as a %s file: %w", opts.ViaFile, ferr)
		}
		cfg = fcfg
	}
	n := &Node{
		Name:     name,
		ID:       id,
		Cfg:      cfg,
		Store:    storage.NewMemStorage(),
		Builder:  frame.NewFrameBuilder(),
		RouterIn: make(chan frame.Frame, 4096),
		SwitchIn: make(chan frame.Frame, 4096),
		Links:    map[netip.Addr]*VLink{},
		Net:      vn,
		Gate:     &Gate{},
	}
	n.Builder.SetFrameMargins(peering.FrameOffset, peering.FrameOverhead)
	n.St = state.New(n, &GateStorage{Storage: n.Store, G: n.Gate})
	if opts.WithTun {
		n.Tun = &tun.Device{
			RecvRaw:   make(chan []byte, 1000),
			SendRaw:   make(chan []byte, 1000),
			SendFrame: make(chan frame.Frame, 1000),
		}
	}
	n.Rtr, err = router.New(n, router.Config{})
	if err != nil {
		return nil, fmt.Errorf("router: %w", err)
	}
	n.Sw = switchr.New(n, n.RouterIn)
	n.Peer = peering.New(n, n.SwitchIn)
	vn.Nodes = append(vn.Nodes, n)
	vn.ByIP[n.IP()] = n
	return n, nil
}

// VLink is one end of a virtual link.
type VLink struct {
	Owner   *Node
	Remote  *Node
	Label   m.SwitchLabel
	Lat     uint16
	IsLite  bool
	Closing bool
	Other   *VLink
	started time.Time
	out     uint64
}

var _ peering.Link = &VLink{}

func (l *VLink) String() string                   { return fmt.Sprintf("vlink %s->%s", l.Owner.Name, l.Remote.Name) }
func (l *VLink) Peer() netip.Addr                 { return l.Remote.IP() }
func (l *VLink) SwitchLabel() m.SwitchLabel       { return l.Label }
func (l *VLink) GeoMark() string                  { return "" }
func (l *VLink) PeeringURL() *m.PeeringURL        { return nil }
func (l *VLink) Outgoing() bool                   { return true }
func (l *VLink) Lite() bool                       { return l.IsLite }
func (l *VLink) LocalAddr() net.Addr              { return &net.TCPAddr{IP: net.IPv4(127, 0, 0, 1), Port: 1} }
func (l *VLink) RemoteAddr() net.Addr             { return &net.TCPAddr{IP: net.IPv4(127, 0, 0, 1), Port: 2} }
func (l *VLink) Started() time.Time               { return l.started }
func (l *VLink) Uptime() time.Duration            { return time.Since(l.started) }
func (l *VLink) Latency() uint16                  { return l.Lat }
func (l *VLink) AddMeasuredLatency(time.Duration) {}
func (l *VLink) BytesIn() uint64                  { return 0 }
func (l *VLink) BytesOut() uint64                 { return l.out }
func (l *VLink) IsClosing() bool {
	// A schedule point: forwarding code asks a link whether it is closing between
	// picking it and using it.
	if l.Owner != nil {
		l.Owner.Gate.Pass("link.IsClosing")
	}
	return l.Closing
}
func (l *VLink) Close(func())                     { l.Closing = true }
func (l *VLink) FlowControlIndicator() frame.FlowControlFlag {
	return frame.FlowControlFlagIncreaseFlow
}

func (l *VLink) send(f frame.Frame, prio bool) error {
	// Like the real (encrypting) link writer: serialise with room for the link
	// header and MAC, then release the frame. A frame the writer cannot
	// serialise is dropped there with an error, here as well.
	data, err := f.FrameDataWithMargins(peering.FrameOffset, peering.FrameOverhead)
	l.Owner.Net.mu.Lock()
	defer l.Owner.Net.mu.Unlock()
	if err != nil {
		l.Owner.Net.SendErrs = append(l.Owner.Net.SendErrs, fmt.Sprintf("%s -> %s: type %d, %d bytes: %v", l.Owner.Name, l.Remote.Name, f.MessageType(), len(f.MessageData())+len(f.AppendixData()), err))
		f.ReturnToPool()
		return err
	}
	cp := append([]byte(nil), data[peering.FrameOffset:len(data)-peering.FrameOverhead]...)
	f.ReturnToPool()
	vn := l.Owner.Net
	vn.seq++
	l.out += uint64(len(cp))
	vn.Queue = append(vn.Queue, &InFlight{Seq: vn.seq, From: l.Owner, To: l.Remote, Link: l.Other, Data: cp, Prio: prio})
	if vn.LogCrossings {
		vn.Crossings = append(vn.Crossings, &Crossing{Seq: vn.seq, From: l.Owner.IP(), To: l.Remote.IP(), Data: cp})
	}
	return nil
}

// SendPriority queues a priority frame.
func (l *VLink) SendPriority(f frame.Frame) error { return l.send(f, true) }

// Send queues a frame.
func (l *VLink) Send(f frame.Frame) error { return l.send(f, false) }

// LinkOpts configures a virtual link.
type LinkOpts struct {
	LabelA, LabelB m.SwitchLabel // label of the link at a / at b
	LatA, LatB     uint16
	LiteA, LiteB   bool // whether a sees b as lite / b sees a as lite
}

// Connect creates a virtual link between a and b and registers both ends
// through the real Peering.AddLink (which also adds the peer routes).
func (vn *Net) Connect(a, b *Node, o LinkOpts) (*VLink, *VLink, error) {
	la := &VLink{Owner: a, Remote: b, Label: o.LabelA, Lat: o.LatA, IsLite: o.LiteA, started: time.Now()}
	lb := &VLink{Owner: b, Remote: a, Label: o.LabelB, Lat: o.LatB, IsLite: o.LiteB, started: time.Now()}
	la.Other, lb.Other = lb, la
	if err := a.Peer.AddLink(la); err != nil {
		return nil, nil, err
	}
	if err := b.Peer.AddLink(lb); err != nil {
		return nil, nil, err
	}
	a.Links[b.IP()] = la
	b.Links[a.IP()] = lb
	// Both ends of a real link know each other's identity from the handshake.
	if err := a.St.AddRouter(&b.ID.Addr.PublicAddress); err != nil {
		return nil, nil, err
	}
	if err := b.St.AddRouter(&a.ID.Addr.PublicAddress); err != nil {
		return nil, nil, err
	}
	return la, lb, nil
}

// Result describes what handling one delivered frame did.
type Result struct {
	ParseErr  error
	SwitchErr error
	// RouterErrs holds the handler error of every frame the switch escalated.
	RouterErrs []error
	// Escalated is the number of frames handed to the router.
	Escalated int
	Panicked  bool
}

// Inject parses data as a frame received by node n over its link recv and runs
// the real switch and router handlers on it synchronously.
func (vn *Net) Inject(n *Node, recv *VLink, data []byte) Result {
	var res Result
	ps := pooled(n.Builder, len(data)+peering.FrameOffset+peering.FrameOverhead)
	if ps == nil {
		res.ParseErr = errors.New("frame too big for any pooled slice")
		return res
	}
	copy(ps[peering.FrameOffset:], data)
	f, err := n.Builder.ParseFrame(ps[peering.FrameOffset:peering.FrameOffset+len(data)], ps, peering.FrameOffset)
	if err != nil {
		res.ParseErr = err
		return res
	}
	if recv != nil {
		f.SetRecvLink(recv)
	}
	return vn.HandleFrame(n, f)
}

// HandleFrame runs the switch and (for escalated frames) router handlers.
func (vn *Net) HandleFrame(n *Node, f frame.Frame) Result {
	var res Result
	err := watched(n.Name+" switch", func() error { return n.Sw.VerifHandleFrame(f) })
	if err != nil {
		if errors.Is(err, mgr.ErrWorkerPanic) {
			res.Panicked = true
			vn.mu.Lock()
			vn.Panics = append(vn.Panics, fmt.Sprintf("%s switch: %v", n.Name, err))
			vn.mu.Unlock()
		}
		res.SwitchErr = err
	}
	res.merge(vn.DrainRouter(n))
	return res
}

// StallTimeout is how long one frame may keep a worker busy before the worker
// counts as stalled (handlers do no I/O in this rig; they return in microseconds).
var StallTimeout = 20 * time.Second

// watched runs one handler call and fails the case if it does not return.
func watched(who string, fn func() error) error {
	done := make(chan error, 1)
	go func() { done <- fn() }()
	select {
	case err := <-done:
		return err
	case <-time.After(StallTimeout):
		panic(core.CodeFault{Msg: fmt.Sprintf("the %s worker did not return from handling a frame within %s: the worker is stalled", who, StallTimeout)})
	}
}

func (r *Result) merge(o Result) {
	r.RouterErrs = append(r.RouterErrs, o.RouterErrs...)
	r.Escalated += o.Escalated
	r.Panicked = r.Panicked || o.Panicked
}

// DrainRouter handles every frame waiting in the node's router input.
func (vn *Net) DrainRouter(n *Node) Result {
	var res Result
	for {
		select {
		case f := <-n.RouterIn:
			res.Escalated++
			err := watched(n.Name+" router", func() error { return n.Rtr.VerifHandleFrame(f) })
			if err != nil {
				if errors.Is(err, mgr.ErrWorkerPanic) {
					res.Panicked = true
					vn.mu.Lock()
					vn.Panics = append(vn.Panics, fmt.Sprintf("%s router: %v", n.Name, err))
					vn.mu.Unlock()
				}
				res.RouterErrs = append(res.RouterErrs, err)
			}
		default:
			return res
		}
	}
}

// InjectPar hands the given frames to n at the same time, one worker each, as
// the router's per-core frame handlers would get copies that arrive over
// several links at once. The node's gate, if armed, holds one of the workers at
// a schedule point: the first worker is started and given time to reach it, then
// the others run (they finish or block behind the held one), then the gate is
// released. Returns the merged result and whether a worker was held; ok is
// false if the workers did not finish (a stall).
func (vn *Net) InjectPar(n *Node, recv []*VLink, datas [][]byte) (res Result, held bool, ok bool) {
	var wg sync.WaitGroup
	var rmu sync.Mutex
	done := make([]chan struct{}, len(datas))
	start := func(i int) {
		done[i] = make(chan struct{})
		wg.Add(1)
		go func() {
			defer wg.Done()
			defer close(done[i])
			r := vn.Inject(n, recv[i], datas[i])
			rmu.Lock()
			res.merge(r)
			if r.ParseErr != nil {
				res.ParseErr = r.ParseErr
			}
			rmu.Unlock()
		}()
	}
	start(0)
	for waited := 0; waited < 100 && !held; waited++ {
		held = n.Gate.WaitReached(3 * time.Millisecond)
		select {
		case <-done[0]:
			waited = 100
		default:
		}
	}
	for i := 1; i < len(datas); i++ {
		start(i)
		select {
		case <-done[i]:
		case <-time.After(100 * time.Millisecond):
		}
	}
	n.Gate.Release()
	fin := make(chan struct{})
	go func() { wg.Wait(); close(fin) }()
	select {
	case <-fin:
		return res, held, true
	case <-time.After(StallTimeout + 5*time.Second):
		return res, held, false
	}
}

// Deliver removes in-flight frame i from the queue and delivers it.
func (vn *Net) Deliver(i int) (*InFlight, Result) {
	fl := vn.Queue[i]
	vn.Queue = append(vn.Queue[:i], vn.Queue[i+1:]...)
	return fl, vn.Inject(fl.To, fl.Link, fl.Data)
}

// Drop removes in-flight frame i without delivering it.
func (vn *Net) Drop(i int) *InFlight {
	fl := vn.Queue[i]
	vn.Queue = append(vn.Queue[:i], vn.Queue[i+1:]...)
	return fl
}

// Run delivers frames until the queue is empty or max deliveries were made;
// pick chooses the index of the next frame (nil = FIFO). Returns deliveries.
func (vn *Net) Run(max int, pick func(n int) int, each func(*InFlight, Result)) int {
	count := 0
	for len(vn.Queue) > 0 && count < max {
		i := 0
		if pick != nil {
			i = pick(len(vn.Queue))
		}
		fl, res := vn.Deliver(i)
		count++
		if each != nil {
			each(fl, res)
		}
	}
	return count
}

// ParseView parses bytes into a frame for inspection (on a private builder).
var viewBuilder = frame.NewFrameBuilder()

// View parses a copy of data for read-only inspection; the caller must call
// ReturnToPool on the result.
func View(data []byte) (frame.Frame, error) {
	ps := pooled(viewBuilder, len(data))
	if ps == nil {
		return nil, errors.New("too big")
	}
	copy(ps, data)
	return viewBuilder.ParseFrame(ps[:len(data)], ps, 0)
}

// InjectSwitch parses data as a frame received by n over recv and runs only the
// real switch handler. Frames the switch escalated to the router are returned
// unhandled (the caller owns them and must release them).
func (vn *Net) InjectSwitch(n *Node, recv *VLink, data []byte) (escalated []frame.Frame, err error) {
	ps := pooled(n.Builder, len(data)+peering.FrameOffset+peering.FrameOverhead)
	if ps == nil {
		return nil, errors.New("frame too big for any pooled slice")
	}
	copy(ps[peering.FrameOffset:], data)
	f, err := n.Builder.ParseFrame(ps[peering.FrameOffset:peering.FrameOffset+len(data)], ps, peering.FrameOffset)
	if err != nil {
		return nil, err
	}
	if recv != nil {
		f.SetRecvLink(recv)
	}
	err = watched(n.Name+" switch", func() error { return n.Sw.VerifHandleFrame(f) })
	if err != nil && errors.Is(err, mgr.ErrWorkerPanic) {
		vn.Panics = append(vn.Panics, fmt.Sprintf("%s switch: %v", n.Name, err))
	}
	for {
		select {
		case e := <-n.RouterIn:
			escalated = append(escalated, e)
		default:
			return escalated, err
		}
	}
}

// pooled gets a buffer the way the link reader does and holds the builder to
// its contract: a buffer of at least the requested size, or none.
func pooled(b *frame.Builder, n int) []byte {
	ps := b.GetPooledSlice(n)
	if ps != nil && len(ps) < n {
		panic(core.CodeFault{Msg: fmt.Sprintf("the frame builder handed out a %d-byte buffer for a request of %d bytes (a received frame of that size cannot be parsed)", len(ps), n)})
	}
	return ps
}

// storeDoc renders a configuration as a generic document under the documented
// key names (spelled out here, not taken from the struct tags of the code under
// test, so that a key the decoder no longer recognises shows as a difference).
func storeDoc(st config.Store) map[string]any {
	put := func(m map[string]any, k string, v any) {
		switch x := v.(type) {
		case string:
			if x == "" {
				return
			}
		case bool:
			if !x {
				return
			}
		case int:
			if x == 0 {
				return
			}
		case uint64:
			if x == 0 {
				return
			}
		case []string:
			if len(x) == 0 {
				return
			}
			l := make([]any, len(x))
			for i := range x {
				l[i] = x[i]
			}
			v = l
		}
		m[k] = v
	}
	doc := map[string]any{}
	r := map[string]any{}
	a := map[string]any{}
	put(a, "ip", st.Router.Address.IP)
	put(a, "hash", string(st.Router.Address.Hash))
	put(a, "type", string(st.Router.Address.Type))
	put(a, "public", st.Router.Address.PublicKey)
	put(a, "private", st.Router.Address.PrivateKey)
	put(a, "easing", st.Router.Address.Easing)
	r["address"] = a
	put(r, "universe", st.Router.Universe)
	put(r, "universeSecret", st.Router.UniverseSecret)
	put(r, "isolate", st.Router.Isolate)
	put(r, "listen", st.Router.Listen)
	put(r, "iana", st.Router.IANA)
	put(r, "connect", st.Router.Connect)
	put(r, "autoConnect", st.Router.AutoConnect)
	put(r, "minAutoConnect", st.Router.MinAutoConnect)
	put(r, "bootstrap", st.Router.Bootstrap)
	put(r, "stub", st.Router.Stub)
	put(r, "lite", st.Router.Lite)
	doc["router"] = r
	sys := map[string]any{}
	put(sys, "tunName", st.System.TunName)
	put(sys, "tunMTU", st.System.TunMTU)
	put(sys, "disableTun", st.System.DisableTun)
	put(sys, "apiListen", st.System.APIListen)
	put(sys, "statePath", st.System.StatePath)
	put(sys, "disableChromiumWorkaround", st.System.DisableChromiumWorkaround)
	if len(sys) > 0 {
		doc["system"] = sys
	}
	if len(st.ServiceConfigs) > 0 {
		var l []any
		for _, sc := range st.ServiceConfigs {
			e := map[string]any{}
			put(e, "name", sc.Name)
			put(e, "description", sc.Description)
			put(e, "domain", sc.Domain)
			put(e, "url", sc.URL)
			put(e, "public", sc.Public)
			put(e, "friends", sc.Friends)
			put(e, "for", sc.For)
			put(e, "advertise", sc.Advertise)
			l = append(l, e)
		}
		doc["services"] = l
	}
	if len(st.FriendConfigs) > 0 {
		var l []any
		for _, fc := range st.FriendConfigs {
			e := map[string]any{}
			put(e, "name", fc.Name)
			put(e, "ip", fc.IP)
			l = append(l, e)
		}
		doc["friends"] = l
	}
	if len(st.ResolveConfig) > 0 {
		rc := map[string]any{}
		for k, v := range st.ResolveConfig {
			rc[k] = v
		}
		doc["resolve"] = rc
	}
	return doc
}

// LoadViaFile writes the configuration to a scratch file of the given type
// ("json", "yaml" or "yml") and loads it with config.LoadConfig.
func LoadViaFile(st config.Store, typ string) (*config.Config, error) {
	doc := storeDoc(st)
	var data []byte
	var err error
	if typ == "json" {
		data, err = json.Marshal(doc)
	} else {
		// On the pinned tree yaml.v3 panics on the "omitzero" flag in the tags of
		// the address block (an observation outside the properties, DESIGN.md
		// 10.3), so a YAML file is written without that block; the node's
		// identity does not come from the parsed configuration anyway.
		delete(doc["router"].(map[string]any), "address")
		data, err = yaml.Marshal(doc)
	}
	if err != nil {
		return nil, err
	}
	dir := "/dev/shm"
	if _, err := os.Stat(dir); err != nil {
		dir = os.TempDir()
	}
	f, err := os.CreateTemp(dir, "verif-config-*."+typ)
	if err != nil {
		return nil, err
	}
	defer os.Remove(f.Name())
	if _, err := f.Write(data); err != nil {
		f.Close()
		return nil, err
	}
	f.Close()
	return config.LoadConfig(f.Name())
}
