package vnet

import (
	"io"
	"log/slog"
	"testing"

	"github.com/mycoria/mycoria/m"

	"verif/ids"
)

func TestSmokeLine(t *testing.T) {
	slog.SetDefault(slog.New(slog.NewTextHandler(io.Discard, nil)))
	vn := New()
	pool := ids.Routable()
	const n = 7
	for i := 0; i < n; i++ {
		if _, err := vn.AddNode(string(rune('A'+i)), pool[i], NodeOpts{}); err != nil {
			t.Fatal(err)
		}
	}
	for i := 0; i+1 < n; i++ {
		if _, _, err := vn.Connect(vn.Nodes[i], vn.Nodes[i+1], LinkOpts{LabelA: m.SwitchLabel(10 + i), LabelB: m.SwitchLabel(50 + i), LatA: 5, LatB: 5}); err != nil {
			t.Fatal(err)
		}
	}
	for _, nd := range vn.Nodes {
		if err := nd.Rtr.VerifAnnounce(); err != nil {
			t.Fatal(err)
		}
	}
	cnt := vn.Run(100000, nil, nil)
	t.Logf("deliveries: %d panics: %d", cnt, len(vn.Panics))
	for _, p := range vn.Panics {
		t.Log(p)
	}
	for _, a := range vn.Nodes {
		have := 0
		for _, b := range vn.Nodes {
			if a == b {
				continue
			}
			rte, isDst := a.Rtr.Table().LookupNearestRoute(b.IP())
			if rte != nil && isDst {
				have++
			}
		}
		t.Logf("%s has exact routes to %d/%d", a.Name, have, n-1)
	}
}
