package vnet

import (
	"net/netip"
	"runtime/debug"
	"strings"
	"sync"
	"time"

	"github.com/mycoria/mycoria/storage"
)

// Gate turns the points where the code under test calls out of its package
// (instance accessors, storage) into schedule points: once armed, the n-th
// such call - from whichever goroutine makes it - is held until Release.
// Which call is held is a generated value; real time only bounds how long the
// harness waits for the other goroutines to make progress or block.
type Gate struct {
	mu      sync.Mutex
	armed   bool
	skip    int
	reached chan struct{}
	release chan struct{}
	only    string // if set, only calls from this point count
	all     string // HoldAll: every call from this point waits
	waiting int
	Point   string // where the held call came from
	Stack   string // call stack of the held call (functions of the code under test)
}

// Arm holds the (skip+1)-th call from now on.
func (g *Gate) Arm(skip int) {
	g.mu.Lock()
	defer g.mu.Unlock()
	g.armed, g.skip, g.only = true, skip, ""
	g.reached = make(chan struct{})
	g.release = make(chan struct{})
	g.Point = ""
}

// ArmAt holds the (skip+1)-th call that comes from the named point.
func (g *Gate) ArmAt(point string, skip int) {
	g.Arm(skip)
	g.mu.Lock()
	g.only = point
	g.mu.Unlock()
}

// HoldAll makes every call from the named point wait until Release (a burst of
// requests that overlap in time); Waiting tells how many are waiting.
func (g *Gate) HoldAll(point string) {
	g.mu.Lock()
	defer g.mu.Unlock()
	g.all, g.waiting = point, 0
	g.release = make(chan struct{})
}

// Waiting returns the number of calls HoldAll is holding.
func (g *Gate) Waiting() int {
	g.mu.Lock()
	defer g.mu.Unlock()
	return g.waiting
}

// Pass is called at every schedule point.
func (g *Gate) Pass(point string) {
	if g == nil {
		return
	}
	g.mu.Lock()
	if g.all != "" && g.all == point {
		g.waiting++
		release := g.release
		g.mu.Unlock()
		<-release
		return
	}
	if !g.armed || (g.only != "" && g.only != point) {
		g.mu.Unlock()
		return
	}
	if g.skip > 0 {
		g.skip--
		g.mu.Unlock()
		return
	}
	g.armed = false
	g.Point = point
	g.Stack = codeStack()
	reached, release := g.reached, g.release
	g.mu.Unlock()
	close(reached)
	<-release
}

// WaitReached waits until a call is held (true) or the time is up (false).
func (g *Gate) WaitReached(d time.Duration) bool {
	g.mu.Lock()
	ch := g.reached
	g.mu.Unlock()
	if ch == nil {
		return false
	}
	select {
	case <-ch:
		return true
	case <-time.After(d):
		return false
	}
}

// Release lets the held call continue and disarms the gate.
func (g *Gate) Release() {
	g.mu.Lock()
	defer g.mu.Unlock()
	g.armed = false
	g.all = ""
	if g.release != nil {
		select {
		case <-g.release:
		default:
			close(g.release)
		}
	}
}

// codeStack lists the functions of the code under test on the current stack, innermost first.
func codeStack() string {
	var out []string
	for _, l := range strings.Split(string(debug.Stack()), "\n") {
		if strings.HasPrefix(l, "github.com/mycoria/mycoria/") {
			if i := strings.LastIndex(l, "("); i > 0 {
				l = l[:i]
			}
			out = append(out, strings.TrimPrefix(l, "github.com/mycoria/mycoria/"))
		}
	}
	return strings.Join(out, " < ")
}

// GateStorage passes every router lookup and save through a gate.
type GateStorage struct {
	storage.Storage
	G *Gate
}

func (s *GateStorage) GetRouter(router netip.Addr) (*storage.StoredRouter, error) {
	s.G.Pass("storage.GetRouter")
	return s.Storage.GetRouter(router)
}

func (s *GateStorage) SaveRouter(router *storage.StoredRouter) error {
	s.G.Pass("storage.SaveRouter")
	return s.Storage.SaveRouter(router)
}
