// Package wire connects real peering link setups (the verif hook
// Peering.VerifSetupLink) over in-memory connections whose middle is a
// scriptable relay: every complete length-prefixed message written by either
// end is parked, and the test decides which parked message is forwarded (or
// altered, dropped, duplicated, replaced, reflected) next. Interleavings of
// concurrent handshakes are therefore generated values, not scheduler accidents.
package wire

import (
	"errors"
	"fmt"
	"net"
	"sync"
	"time"

	"github.com/mycoria/mycoria/m"
	"github.com/mycoria/mycoria/mgr"
	"github.com/mycoria/mycoria/peering"

	"verif/vnet"
)

// Budget is the real-time budget for a barrier. Exceeding it makes a case
// inconclusive, never a violation.
var Budget = 5 * time.Second

// ErrInconclusive is returned when a barrier did not arrive within the budget.
var ErrInconclusive = errors.New("barrier not reached within the time budget")

// End is the relay's side of the connection to one router.
type End struct {
	Node   *vnet.Node
	Router net.Conn // the conn handed to the router
	relay  net.Conn // our side

	mu     sync.Mutex
	parked [][]byte
	notify chan struct{}
	eof    chan struct{}
	// Written records every byte the router wrote (wire capture).
	Written []byte
	// stray bytes that did not form a message when the stream ended
	Stray []byte

	Outgoing bool
	done     chan struct{}
	Link     peering.Link
	Err      error
}

// Conn is one relayed connection between two routers.
type Conn struct {
	A, B *End
}

// holdConn is the conn handed to the router. Once armed, a failed Read does not
// return before the harness says so: the reader goroutine of a link whose
// connection was closed under it gets to see that only later (a schedule
// point: the goroutine is simply slow to run).
type holdConn struct {
	net.Conn
	mu   sync.Mutex
	hold chan struct{}
}

func (h *holdConn) Read(p []byte) (int, error) {
	n, err := h.Conn.Read(p)
	if err != nil {
		h.mu.Lock()
		ch := h.hold
		h.mu.Unlock()
		if ch != nil {
			<-ch
		}
	}
	return n, err
}

// HoldReadError makes the next failing Read of the router's side wait for
// ReleaseReadError.
func (e *End) HoldReadError() {
	if h, ok := e.Router.(*holdConn); ok {
		h.mu.Lock()
		if h.hold == nil {
			h.hold = make(chan struct{})
		}
		h.mu.Unlock()
	}
}

// ReleaseReadError lets a held failing Read return.
func (e *End) ReleaseReadError() {
	if h, ok := e.Router.(*holdConn); ok {
		h.mu.Lock()
		if h.hold != nil {
			select {
			case <-h.hold:
			default:
				close(h.hold)
			}
		}
		h.mu.Unlock()
	}
}

func newEnd(n *vnet.Node, outgoing bool) *End {
	r0, p := net.Pipe()
	var r net.Conn = &holdConn{Conn: r0}
	e := &End{Node: n, Router: r, relay: p, notify: make(chan struct{}, 4096), eof: make(chan struct{}), Outgoing: outgoing, done: make(chan struct{})}
	go e.reader()
	return e
}

func (e *End) reader() {
	defer close(e.eof)
	var hdr [2]byte
	for {
		if _, err := readFull(e.relay, hdr[:]); err != nil {
			return
		}
		l := int(hdr[0])<<8 | int(hdr[1])
		msg := make([]byte, l)
		if l < 2 {
			// Not a well-formed length; treat the two bytes as a message of their own.
			msg = append([]byte(nil), hdr[:]...)
		} else {
			copy(msg, hdr[:])
			if _, err := readFull(e.relay, msg[2:]); err != nil {
				e.mu.Lock()
				e.Stray = msg
				e.mu.Unlock()
				return
			}
		}
		e.mu.Lock()
		e.parked = append(e.parked, msg)
		e.Written = append(e.Written, msg...)
		e.mu.Unlock()
		select {
		case e.notify <- struct{}{}:
		default:
		}
	}
}

func readFull(c net.Conn, buf []byte) (int, error) {
	n := 0
	for n < len(buf) {
		k, err := c.Read(buf[n:])
		n += k
		if err != nil {
			return n, err
		}
	}
	return n, nil
}

// Parked returns the number of parked messages.
func (e *End) Parked() int {
	e.mu.Lock()
	defer e.mu.Unlock()
	return len(e.parked)
}

// Take removes and returns parked message i.
func (e *End) Take(i int) []byte {
	e.mu.Lock()
	defer e.mu.Unlock()
	msg := e.parked[i]
	e.parked = append(e.parked[:i], e.parked[i+1:]...)
	return msg
}

// Peek returns parked message i without removing it.
func (e *End) Peek(i int) []byte {
	e.mu.Lock()
	defer e.mu.Unlock()
	return e.parked[i]
}

// ErrEnded is returned when the router closed its side (or its setup failed)
// before the awaited message appeared.
var ErrEnded = errors.New("router ended the connection")

// WaitParked waits until at least n messages are parked, or the router ended
// the connection / its setup failed.
func (e *End) WaitParked(n int) error {
	deadline := time.After(Budget)
	for {
		if e.Parked() >= n {
			return nil
		}
		if e.Ended() {
			return ErrEnded
		}
		if e.Done() && e.Err != nil {
			// Setup failed (or panicked, in which case the conn may stay open).
			// Pipe writes are synchronous, so everything it wrote is parked.
			select {
			case <-e.eof:
			case <-time.After(20 * time.Millisecond):
			}
			if e.Parked() >= n {
				return nil
			}
			return ErrEnded
		}
		select {
		case <-e.notify:
		case <-e.eof:
		case <-e.done:
		case <-deadline:
			return ErrInconclusive
		}
	}
}

// WaitReaction waits until the router reacted to what it was sent: it parked a
// new message (more than prev), its setup returned, or it ended the connection.
func (e *End) WaitReaction(prev int) error {
	deadline := time.After(Budget)
	for {
		if e.Parked() > prev || e.Done() || e.Ended() {
			return nil
		}
		select {
		case <-e.notify:
		case <-e.eof:
		case <-e.done:
		case <-deadline:
			return ErrInconclusive
		}
	}
}

// Write forwards bytes to the router (blocks until the router read them).
func (e *End) Write(data []byte) error {
	_ = e.relay.SetWriteDeadline(time.Now().Add(Budget))
	_, err := e.relay.Write(data)
	return err
}

// Done reports whether the router's link setup has returned.
func (e *End) Done() bool {
	select {
	case <-e.done:
		return true
	default:
		return false
	}
}

// WaitDone waits for the link setup to return.
func (e *End) WaitDone() error {
	select {
	case <-e.done:
		return nil
	case <-time.After(Budget):
		return ErrInconclusive
	}
}

// Ended reports whether the router closed its side.
func (e *End) Ended() bool {
	select {
	case <-e.eof:
		return true
	default:
		return false
	}
}

// WaitEnded waits until the router closed its side of the connection.
func (e *End) WaitEnded() error {
	select {
	case <-e.eof:
		return nil
	case <-time.After(Budget):
		return ErrInconclusive
	}
}

// Close closes the relay side (the router sees EOF / a write error).
func (e *End) Close() { _ = e.relay.Close() }

var peeringURL, _ = m.ParsePeeringURL("tcp://127.0.0.1:47369")

// Dial starts a real link setup between a (dialling) and b (accepting) over a
// relayed connection. Both setups run in their own goroutine and block on the
// relay.
func Dial(a, b *vnet.Node) *Conn {
	c := &Conn{A: newEnd(a, true), B: newEnd(b, false)}
	for _, e := range []*End{c.A, c.B} {
		e := e
		go func() {
			defer close(e.done)
			e.Link, e.Err = e.Node.Peer.VerifSetupLink(e.Router, peeringURL, e.Outgoing)
		}()
	}
	return c
}

// DialOne starts a real link setup for a only; the other side of the
// connection is played by the test (scripted attacker) through the returned End.
func DialOne(a *vnet.Node, outgoing bool) *End {
	e := newEnd(a, outgoing)
	go func() {
		defer close(e.done)
		e.Link, e.Err = e.Node.Peer.VerifSetupLink(e.Router, peeringURL, outgoing)
	}()
	return e
}

// Other returns the opposite end.
func (c *Conn) Other(e *End) *End {
	if e == c.A {
		return c.B
	}
	return c.A
}

// Panicked reports whether the setup error is a recovered worker panic.
func (e *End) Panicked() bool { return e.Err != nil && errors.Is(e.Err, mgr.ErrWorkerPanic) }

// Honest runs an unmodified handshake in lock-step order and returns when both
// setups returned.
func (c *Conn) Honest() error {
	// Three messages each way: request, response, ack.
	for round := 0; round < 3; round++ {
		for _, e := range []*End{c.A, c.B} {
			if err := e.WaitParked(1); err != nil {
				return fmt.Errorf("round %d: %s: %w", round, e.Node.Name, err)
			}
		}
		ma, mb := c.A.Take(0), c.B.Take(0)
		if err := c.B.Write(ma); err != nil {
			return err
		}
		if err := c.A.Write(mb); err != nil {
			return err
		}
	}
	if err := c.A.WaitDone(); err != nil {
		return err
	}
	return c.B.WaitDone()
}

// Teardown closes both ends and waits for the links to be closed.
func (c *Conn) Teardown() {
	for _, e := range []*End{c.A, c.B} {
		if e == nil {
			continue
		}
		e.Close()
	}
	for _, e := range []*End{c.A, c.B} {
		if e == nil {
			continue
		}
		select {
		case <-e.done:
		case <-time.After(Budget):
		}
		if e.Link != nil {
			e.Link.Close(nil)
			if ch := peering.VerifLinkClosed(e.Link); ch != nil {
				select {
				case <-ch:
				case <-time.After(Budget):
				}
			}
		}
		_ = e.Router.Close()
	}
}
