package wire

import (
	"io"
	"log/slog"
	"testing"
	"time"

	"github.com/mycoria/mycoria/frame"

	"verif/ids"
	"verif/vnet"
)

func TestHonest(t *testing.T) {
	slog.SetDefault(slog.New(slog.NewTextHandler(io.Discard, nil)))
	vn := vnet.New()
	pool := ids.Routable()
	a, _ := vn.AddNode("A", pool[0], vnet.NodeOpts{})
	b, _ := vn.AddNode("B", pool[1], vnet.NodeOpts{})
	c := Dial(a, b)
	if err := c.Honest(); err != nil {
		t.Fatal(err)
	}
	if c.A.Err != nil || c.B.Err != nil {
		t.Fatalf("setup errors: %v / %v", c.A.Err, c.B.Err)
	}
	if c.A.Link.Peer() != b.IP() || c.B.Link.Peer() != a.IP() {
		t.Fatal("peers wrong")
	}
	f, _ := a.Builder.NewFrameV1(a.IP(), b.IP(), frame.NetworkTraffic, nil, []byte("hello over the wire"), nil)
	want, _ := f.FrameDataWithMargins(0, 0)
	want = append([]byte(nil), want...)
	_ = c.A.Link.Send(f)
	if err := c.A.WaitParked(1); err != nil {
		t.Fatal(err)
	}
	if err := c.B.Write(c.A.Take(0)); err != nil {
		t.Fatal(err)
	}
	select {
	case g := <-b.SwitchIn:
		got, _ := g.FrameDataWithMargins(0, 0)
		if string(got) != string(want) {
			t.Fatal("frame differs")
		}
	case <-time.After(2 * time.Second):
		t.Fatal("no frame")
	}
	c.Teardown()
	if a.Peer.GetLink(b.IP()) != nil || b.Peer.GetLink(a.IP()) != nil {
		t.Fatal("links remain registered after teardown")
	}
}
