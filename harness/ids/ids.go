// Package ids loads the committed pool of test identities.
package ids

import (
	"encoding/json"
	"fmt"
	"os"
	"path/filepath"
	"sync"

	"github.com/mycoria/mycoria/m"
)

// Identity is one pool entry.
type Identity struct {
	Index int
	Group string
	Addr  *m.Address
}

var (
	once sync.Once
	pool []*Identity
	byG  = map[string][]*Identity{}
)

func load() {
	root := os.Getenv("VERIF_ROOT")
	if root == "" {
		root = "/verif"
	}
	data, err := os.ReadFile(filepath.Join(root, "testdata", "identities.json"))
	if err != nil {
		panic(fmt.Sprintf("ids: %v", err))
	}
	var raw []struct {
		Group string           `json:"group"`
		Addr  m.AddressStorage `json:"addr"`
	}
	if err := json.Unmarshal(data, &raw); err != nil {
		panic(fmt.Sprintf("ids: %v", err))
	}
	// Append-only extension groups (indices of the base pool never change).
	for _, extra := range []string{"identities_privacy16.json"} {
		data, err := os.ReadFile(filepath.Join(root, "testdata", extra))
		if err != nil {
			panic(fmt.Sprintf("ids: %v", err))
		}
		var more []struct {
			Group string           `json:"group"`
			Addr  m.AddressStorage `json:"addr"`
		}
		if err := json.Unmarshal(data, &more); err != nil {
			panic(fmt.Sprintf("ids: %s: %v", extra, err))
		}
		raw = append(raw, more...)
	}
	for i, r := range raw {
		addr, err := m.AddressFromStorage(r.Addr)
		if err != nil {
			panic(fmt.Sprintf("ids: identity %d: %v", i, err))
		}
		id := &Identity{Index: i, Group: r.Group, Addr: addr}
		pool = append(pool, id)
		byG[r.Group] = append(byG[r.Group], id)
	}
}

// All returns the whole pool.
func All() []*Identity {
	once.Do(load)
	return pool
}

// Get returns identity i (modulo pool size).
func Get(i int) *Identity {
	once.Do(load)
	return pool[((i%len(pool))+len(pool))%len(pool)]
}

// Group returns the identities of one group.
func Group(g string) []*Identity {
	once.Do(load)
	return byG[g]
}

// Routable returns all identities in the routable (non-privacy) range.
func Routable() []*Identity {
	once.Do(load)
	var out []*Identity
	for _, id := range pool {
		if m.RoutingAddressPrefix.Contains(id.Addr.IP) {
			out = append(out, id)
		}
	}
	return out
}

// Len returns the pool size.
func Len() int {
	once.Do(load)
	return len(pool)
}
