package props

// C14 — End-to-end key setup never ends in a silent key mismatch.
//
// Generator: two real routers A, B on the vnet rig, directly linked, sessions
// known, optionally with keys from an earlier complete setup. Actions: either
// router initiates (real HelloPing.Send), any in-flight message is delivered,
// dropped or duplicated, the pending state of a router expires (simulated time)
// so that it can retry. All interleavings of small budgets are enumerated
// exhaustively; longer ones are drawn at random.
// Oracle: at every point where nothing is in flight: if both routers consider
// encryption established, traffic sealed by either one unseals at the other;
// otherwise at least one does not, and its next packet starts a new setup.

import (
	"fmt"
	"net/netip"
	"os"
	"strings"
	"testing"

	"github.com/mycoria/mycoria/config"
	"github.com/mycoria/mycoria/frame"
	"github.com/mycoria/mycoria/state"

	"verif/core"
	"verif/ids"
	"verif/vnet"
)

var c14Opts = core.Opts{ID: "C14", Quick: 2500, Thorough: 60000}

type c14Budget struct {
	inits    [2]int // local packets each router may send (a packet starts a key setup when needed)
	drops    int
	dups     int
	expires  int
	restarts int // a router loses its keys and pending state (process restart)
	cleans   int // ticks of the once-a-minute cleaner of the ping handlers
	pairs    int // two messages for one router handled by two of its workers at the same time (random test only)
	steps    int
	prekey   bool // start from an established session
}

type c14World struct {
	c         *core.Case
	vn        *vnet.Net
	n         [2]*vnet.Node
	ops       []string
	bud       c14Budget
	dupd      map[int]bool
	both      bool // both initiated before either request was delivered
	lossR     bool // a message was lost and a retry happened
	lost      bool
	inits     [2]int
	delivered int
}

func c14Setup(c *core.Case, ia, ib int, prekey bool) *c14World {
	w := &c14World{c: c, vn: vnet.New(), dupd: map[int]bool{}}
	pool := ids.Routable()
	var err error
	svc := config.Store{ServiceConfigs: []config.ServiceConfig{{Name: "svc", URL: "tcp://:53", Public: true}}}
	w.n[0], err = w.vn.AddNode("A", pool[ia], vnet.NodeOpts{WithTun: true, Store: svc})
	if err != nil {
		c.Fatalf("node A: %v", err)
	}
	w.n[1], err = w.vn.AddNode("B", pool[ib], vnet.NodeOpts{WithTun: true, Store: svc})
	if err != nil {
		c.Fatalf("node B: %v", err)
	}
	if _, _, err := w.vn.Connect(w.n[0], w.n[1], vnet.LinkOpts{LabelA: 3, LabelB: 4, LatA: 5, LatB: 5}); err != nil {
		c.Fatalf("connect: %v", err)
	}
	if prekey {
		sa := w.n[0].St.GetSession(w.n[1].IP())
		sb := w.n[1].St.GetSession(w.n[0].IP())
		if err := vnet.KeyExchange(sa, sb); err != nil {
			c.Fatalf("pre key exchange: %v", err)
		}
	}
	return w
}

func (w *c14World) log(format string, args ...any) {
	s := fmt.Sprintf(format, args...)
	w.ops = append(w.ops, s)
	w.c.Note("%s", s)
}

func (w *c14World) isSetUp(i int) bool {
	s := w.n[i].St.GetSession(w.n[1-i].IP())
	return s != nil && s.Encryption().IsSetUp()
}

// traffic seals a NetworkTraffic frame at from and unseals it at the other end.
func (w *c14World) traffic(from int) error {
	a, b := w.n[from], w.n[1-from]
	f, err := a.Builder.NewFrameV1(a.IP(), b.IP(), frame.NetworkTraffic, nil, []byte("c14 traffic probe"), nil)
	if err != nil {
		return fmt.Errorf("new frame: %w", err)
	}
	if err := f.Seal(a.St.GetSession(b.IP())); err != nil {
		f.ReturnToPool()
		return fmt.Errorf("seal at %s: %w", a.Name, err)
	}
	data, _ := f.FrameDataWithMargins(0, 0)
	data = append([]byte(nil), data...)
	f.ReturnToPool()
	g, err := vnet.View(data)
	if err != nil {
		return fmt.Errorf("parse: %w", err)
	}
	defer g.ReturnToPool()
	if err := g.Unseal(b.St.GetSession(a.IP())); err != nil {
		return fmt.Errorf("unseal at %s: %w", b.Name, err)
	}
	return nil
}

// trafficAcrossWrap: the keys a setup left behind also have to last. The
// sender's regular sequence number is put just before the 32-bit wrap and a
// few frames are sealed and unsealed in order: both ends have to roll over to
// the same next key.
func (w *c14World) trafficAcrossWrap(from int) error {
	a := w.n[from]
	sess := a.St.GetSession(w.n[1-from].IP())
	if sess == nil || !sess.Encryption().IsSetUp() {
		return nil
	}
	h := state.EncryptionSessionTestHelper{EncryptionSession: sess.Encryption()}
	h.ReglSetOut(0xFFFF_FFFF - 2)
	for i := 0; i < 6; i++ {
		if err := w.traffic(from); err != nil {
			return fmt.Errorf("frame %d of 6 around the wrap of the sequence number: %w", i+1, err)
		}
	}
	return nil
}

func (w *c14World) checkQuiescent(where string) {
	if len(w.vn.Queue) != 0 {
		return
	}
	sa, sb := w.isSetUp(0), w.isSetUp(1)
	if sa && sb {
		for from := 0; from < 2; from++ {
			if err := w.traffic(from); err != nil {
				w.c.Fatalf("%s: both routers consider encryption established, but traffic from %s does not unseal at the other: %v", where, w.n[from].Name, err)
			}
		}
		w.c.Class("quiescent/both-established-and-matching")
	} else {
		w.c.Class("quiescent/at-least-one-not-established")
	}
}

// packet hands a local packet for the other router to router i's tun handler:
// the real code starts a key setup if (and only if) it has no established keys,
// otherwise it sends the packet as encrypted traffic.
func (w *c14World) packet(i int) {
	a, b := w.n[i], w.n[1-i]
	wasSetUp := w.isSetUp(i)
	before := len(w.vn.Queue)
	ps := a.Builder.GetPooledSlice(48)
	copy(ps, c14Packet(a.IP(), b.IP(), 53))
	if err := a.Rtr.VerifHandleTunPacket(ps[:48], true); err != nil {
		w.c.Fatalf("tun packet handling at %s failed: %v", a.Name, err)
	}
	sent := len(w.vn.Queue) - before
	w.log("%s sends a local packet (established=%v): %d frame(s) queued", a.Name, wasSetUp, sent)
	if !wasSetUp && sent > 0 {
		w.inits[i]++
		if w.inits[0] > 0 && w.inits[1] > 0 && w.delivered == 0 {
			w.both = true
		}
		if w.lost && w.inits[i] > 1 {
			w.lossR = true
		}
	}
}

func c14Packet(srcIP, dstIP netip.Addr, dstPort byte) []byte {
	pkt := make([]byte, 48)
	pkt[0] = 6 << 4
	pkt[6] = 6
	pkt[7] = 64
	src, dst := srcIP.As16(), dstIP.As16()
	copy(pkt[8:24], src[:])
	copy(pkt[24:40], dst[:])
	pkt[41], pkt[43] = 99, dstPort
	return pkt
}

func (w *c14World) describe(fl *vnet.InFlight) string {
	return fmt.Sprintf("msg%d %s->%s", fl.Seq, fl.From.Name, fl.To.Name)
}

func (w *c14World) deliver(j int) {
	fl, res := w.vn.Deliver(j)
	w.delivered++
	w.log("deliver %s: parse=%v switch=%v router=%v", w.describe(fl), res.ParseErr, res.SwitchErr, res.RouterErrs)
	if res.Panicked {
		w.c.Fatalf("worker panic while handling %s: %v", w.describe(fl), w.vn.Panics)
	}
}

// nextPacketStartsSetup: a router that is not established starts a new hello
// with its next packet (after its pending state expired).
func (w *c14World) nextPacketStartsSetup(i int) {
	a, b := w.n[i], w.n[1-i]
	a.Rtr.VerifExpireHello(b.IP())
	pkt := c14Packet(a.IP(), b.IP(), 77) // a connection not seen before
	ps := a.Builder.GetPooledSlice(len(pkt))
	copy(ps, pkt)
	before := len(w.vn.Queue)
	if err := a.Rtr.VerifHandleTunPacket(ps[:len(pkt)], true); err != nil {
		w.c.Fatalf("tun packet handling failed: %v", err)
	}
	if len(w.vn.Queue) <= before {
		w.c.Fatalf("%s does not consider encryption established, yet its next packet did not start a new key setup", a.Name)
	}
	// Remove what this probe queued.
	w.vn.Queue = w.vn.Queue[:before]
}

// run executes one schedule; every decision is drawn from c.
func c14Run(c *core.Case, bud c14Budget, ia, ib int) {
	w := c14Setup(c, ia, ib, bud.prekey)
	w.bud = bud
	initsLeft := bud.inits
	drops, dups, expires, restarts := bud.drops, bud.dups, bud.expires, bud.restarts
	cleans := bud.cleans
	pairs := bud.pairs
	expiredUnanswered := [2]bool{} // router i holds an expired hello state that was never answered
	for step := 0; step < bud.steps; step++ {
		type act struct {
			kind string
			arg  int
		}
		var acts []act
		for i := 0; i < 2; i++ {
			if initsLeft[i] > 0 {
				acts = append(acts, act{"init", i})
			}
		}
		for j := range w.vn.Queue {
			acts = append(acts, act{"deliver", j})
		}
		if drops > 0 {
			for j := range w.vn.Queue {
				acts = append(acts, act{"drop", j})
			}
		}
		if dups > 0 {
			for j, fl := range w.vn.Queue {
				if !w.dupd[fl.Seq] {
					acts = append(acts, act{"dup", j})
				}
			}
		}
		if expires > 0 {
			for i := 0; i < 2; i++ {
				if active, _ := w.n[i].Rtr.VerifHelloPending(w.n[1-i].IP()); active {
					acts = append(acts, act{"expire", i})
				}
			}
		}
		if restarts > 0 {
			for i := 0; i < 2; i++ {
				if w.isSetUp(i) {
					acts = append(acts, act{"restart", i})
				}
			}
		}
		if cleans > 0 {
			for i := 0; i < 2; i++ {
				// Known finding (known_findings.json): the cleaner forgets a hello that
				// has expired without an answer; if that hello is still under way and
				// the other router starts a setup of its own, both end up established
				// on different exchanges. Such ticks are left out (and counted).
				if expiredUnanswered[i] && core.Known("C14", "cleaner-forgets-unanswered-hello") {
					c.Excluded("cleaner-forgets-unanswered-hello")
					continue
				}
				acts = append(acts, act{"clean", i})
			}
		}
		if pairs > 0 {
			for j, fl := range w.vn.Queue {
				for k := j + 1; k < len(w.vn.Queue); k++ {
					if w.vn.Queue[k].To == fl.To {
						acts = append(acts, act{"pair", j*1000 + k})
					}
				}
			}
		}
		if len(acts) == 0 {
			break
		}
		a := acts[c.Pick("act", len(acts))]
		switch a.kind {
		case "pair":
			// Two messages for one router arrive together and are handled by two of
			// its workers; one of them is held at a generated point while the other
			// runs (see vnet.Gate).
			pairs--
			j, k := a.arg/1000, a.arg%1000
			f2 := w.vn.Drop(k)
			f1 := w.vn.Drop(j)
			to := f1.To
			if at := core.OneOf(c, "pair.point", "", "instance.Identity", "instance.State", "instance.Config", "storage.GetRouter"); at == "" {
				to.Gate.Arm(c.Int("pair.any-call", 0, 12))
			} else {
				to.Gate.ArmAt(at, c.Int("pair.call", 0, 4))
			}
			res, held, ok := w.vn.InjectPar(to, []*vnet.VLink{f1.Link, f2.Link}, [][]byte{f1.Data, f2.Data})
			w.delivered += 2
			w.log("deliver together %s and %s (held at %q): router=%v", w.describe(f1), w.describe(f2), to.Gate.Point, res.RouterErrs)
			if res.Panicked {
				c.Fatalf("worker panic while handling two messages at once: %v", w.vn.Panics)
			}
			if !ok {
				c.Class("inconclusive-workers-did-not-finish")
				return
			}
			if held {
				c.Class("two-messages-at-once/held")
			}
			c.Class("two-messages-at-once")
		case "init":
			initsLeft[a.arg]--
			w.packet(a.arg)
			expiredUnanswered[a.arg] = false // a new hello replaces the old state
		case "restart":
			restarts--
			expiredUnanswered[a.arg] = false
			x, y := w.n[a.arg], w.n[1-a.arg]
			_ = x.St.SetEncryptionSession(y.IP(), nil)
			x.Rtr.VerifExpireHello(y.IP())
			w.log("%s restarts (keys and pending setup lost)", x.Name)
		case "deliver":
			w.deliver(a.arg)
		case "drop":
			drops--
			fl := w.vn.Drop(a.arg)
			w.lost = true
			w.log("drop %s", w.describe(fl))
		case "dup":
			dups--
			fl := w.vn.Queue[a.arg]
			w.dupd[fl.Seq] = true
			cp := *fl
			w.vn.Queue = append(w.vn.Queue, &cp)
			w.log("duplicate %s", w.describe(fl))
		case "clean":
			cleans--
			// What the router's cleaner worker does every minute; nothing has expired here.
			_ = w.n[a.arg].Rtr.HelloPing.Clean(nil)
			w.log("cleaner tick at %s", w.n[a.arg].Name)
		case "expire":
			expires--
			if _, done := w.n[a.arg].Rtr.VerifHelloPending(w.n[1-a.arg].IP()); !done {
				expiredUnanswered[a.arg] = true
			}
			w.n[a.arg].Rtr.VerifExpireHello(w.n[1-a.arg].IP())
			initsLeft[a.arg]++ // a retry becomes possible
			w.log("pending hello of %s expires", w.n[a.arg].Name)
		}
		w.checkQuiescent(fmt.Sprintf("after step %d (%s)", step+1, a.kind))
	}
	// Drain whatever is still in flight, in order.
	for len(w.vn.Queue) > 0 && w.delivered < 200 {
		w.deliver(0)
	}
	w.checkQuiescent("after drain")
	if w.isSetUp(0) && w.isSetUp(1) && c.Mode() != "dfs" && c.Chance("long-lived", 1, 3) {
		for from := 0; from < 2; from++ {
			if err := w.trafficAcrossWrap(from); err != nil {
				c.Fatalf("after drain, both established, traffic long after the setup (sender %s): %v", w.n[from].Name, err)
			}
		}
		c.Class("quiescent/traffic-across-the-sequence-wrap")
	}
	for i := 0; i < 2; i++ {
		if !w.isSetUp(i) {
			w.nextPacketStartsSetup(i)
		}
	}
	nt := w.both || w.lossR
	c.Eval(strings.Join(w.ops, ";"), nt, func() any {
		return map[string]any{"prekeyed": bud.prekey, "schedule": w.ops, "A": w.n[0].IP().String(), "B": w.n[1].IP().String()}
	})
	if w.both {
		c.Class("both-initiated-before-any-delivery")
	}
	if w.lossR {
		c.Class("loss-then-retry")
	}
}

func TestC14Exhaustive(t *testing.T) {
	type cfg struct {
		name string
		bud  c14Budget
	}
	cfgs := []cfg{
		{"cross-nodrop", c14Budget{inits: [2]int{1, 1}, steps: 8}},
		{"cross-drop1", c14Budget{inits: [2]int{1, 1}, drops: 1, steps: 8}},
		{"cross-dup1", c14Budget{inits: [2]int{1, 1}, dups: 1, steps: 9}},
		{"cross-prekeyed", c14Budget{inits: [2]int{1, 1}, steps: 8, prekey: true}},
		{"cross-clean1", c14Budget{inits: [2]int{1, 1}, cleans: 1, steps: 8}},
		{"single-drop-expire-retry", c14Budget{inits: [2]int{1, 0}, drops: 1, expires: 1, steps: 8}},
		{"prekeyed-restart", c14Budget{inits: [2]int{1, 1}, restarts: 1, steps: 8, prekey: true}},
	}
	if core.Thorough() {
		cfgs = append(cfgs,
			cfg{"cross-drop1-expire1", c14Budget{inits: [2]int{1, 1}, drops: 1, expires: 1, steps: 9}},
			cfg{"cross-prekeyed-drop1", c14Budget{inits: [2]int{1, 1}, drops: 1, steps: 8, prekey: true}},
			cfg{"double-init", c14Budget{inits: [2]int{2, 1}, expires: 1, steps: 9}},
			cfg{"prekeyed-restart-drop1", c14Budget{inits: [2]int{2, 1}, restarts: 1, drops: 1, steps: 9, prekey: true}},
		)
	}
	for _, cf := range cfgs {
		cf := cf
		for _, order := range [][2]int{{0, 9}, {9, 0}} { // both address orderings
			order := order
			t.Run(fmt.Sprintf("%s-ids%d_%d", cf.name, order[0], order[1]), func(t *testing.T) {
				core.Exhaust(t, c14Opts, 400_000, func(c *core.Case) {
					c14Run(c, cf.bud, order[0], order[1])
				})
			})
		}
	}
}

func TestC14Random(t *testing.T) {
	core.Run(t, c14Opts, func(c *core.Case) {
		bud := c14Budget{
			inits:    [2]int{c.Int("initsA", 0, 3), c.Int("initsB", 0, 3)},
			drops:    c.Int("drops", 0, 3),
			dups:     c.Int("dups", 0, 2),
			expires:  c.Int("expires", 0, 3),
			restarts: c.Int("restarts", 0, 2),
			cleans:   c.Int("cleans", 0, 2),
			steps:    c.Int("steps", 2, 30),
			prekey:   c.Bool("prekey"),
		}
		if bud.inits[0]+bud.inits[1] == 0 {
			bud.inits[0] = 1
		}
		if os.Getenv("VERIF_C14_PAIRS") != "" {
			// Not part of the registered check: C14 quantifies over delivery orders,
			// i.e. one message after the other. With this switch two messages for one
			// router may be handled by two of its workers at once (DESIGN.md 10.3,
			// observation "two hello requests of one router handled at once").
			bud.pairs = c.Int("pairs", 0, 2)
		}
		ia := c.Pick("idA", 20)
		ib := c.Pick("idB", 19)
		if ib >= ia {
			ib++
		}
		c14Run(c, bud, ia, ib)
	})
}

var _ = netip.Addr{}
