package props

// C12 — Switch-label source routes traverse forward and reverse exactly.
//
// Generator: switch paths of 2..101 hops with labels from the three encoded
// size classes (edges and random interior values), weighted so that the label
// bytes fall below, at and above the 255-byte limit.
// Oracle: behavioural reference traversal inside a guard buffer, written
// against the statement and independent of CalculateBlockSize/BuildBlocks:
// own varint encoding of the expected blocks, expected label at every hop,
// guard bytes untouched, return block exact, reverse traversal exact.
// "Sufficient and minimal": traversal succeeds with the computed size and
// fails with one byte less. "Cannot fit": no size <= 255 works => error, never a
// panic; and an error is only legitimate when size 255 really does not work.

import (
	"bytes"
	"encoding/binary"
	"fmt"
	"net/netip"
	"testing"
	"time"

	"github.com/mycoria/mycoria/m"

	"verif/core"
)

var c12Opts = core.Opts{ID: "C12", Quick: 20000, Thorough: 1500000}

var c12Edges = []int{1, 127, 128, 16383, 16384, 65535}

func c12Label(c *core.Case, label string) m.SwitchLabel {
	switch c.Weighted(label+".kind", 5, 2, 2, 2) {
	case 0:
		return m.SwitchLabel(core.OneOf(c, label+".edge", c12Edges...))
	case 1:
		return m.SwitchLabel(c.Uniform(label+".v1", 1, 127))
	case 2:
		return m.SwitchLabel(c.Uniform(label+".v2", 128, 16383))
	default:
		return m.SwitchLabel(c.Uniform(label+".v3", 16384, 65535))
	}
}

// c12GenPath draws a path. Long paths use one dominant size class so that the
// block size lands around the 255-byte limit.
func c12GenPath(c *core.Case) []m.SwitchHop {
	var n int
	long := c.Weighted("shape", 6, 2, 2)
	switch long {
	case 0:
		n = c.Int("hops", 2, 12)
	case 1:
		n = c.Int("hops", 13, 101)
	default:
		// Aim at the limit: n-1 labels of w bytes ~ 255.
		w := c.Int("aim.width", 1, 3)
		centre := 255/w + 1
		n = centre + c.Int("aim.delta", -3, 3)
		if n > 101 {
			n = 101
		}
		if n < 2 {
			n = 2
		}
		hops := make([]m.SwitchHop, n)
		for i := range hops {
			pick := func(lbl string) m.SwitchLabel {
				if c.Chance(lbl+".off", 1, 12) {
					return c12Label(c, lbl)
				}
				switch w {
				case 1:
					return m.SwitchLabel(c.Uniform(lbl, 1, 127))
				case 2:
					return m.SwitchLabel(c.Uniform(lbl, 128, 16383))
				default:
					return m.SwitchLabel(c.Uniform(lbl, 16384, 65535))
				}
			}
			if i < n-1 {
				hops[i].ForwardLabel = pick(fmt.Sprintf("f%d", i))
			}
			if i > 0 {
				hops[i].ReturnLabel = pick(fmt.Sprintf("r%d", i))
			}
		}
		return hops
	}
	hops := make([]m.SwitchHop, n)
	for i := range hops {
		if i < n-1 {
			hops[i].ForwardLabel = c12Label(c, fmt.Sprintf("f%d", i))
		}
		if i > 0 {
			hops[i].ReturnLabel = c12Label(c, fmt.Sprintf("r%d", i))
		}
	}
	return hops
}

func c12Encode(labels []m.SwitchLabel, size int) ([]byte, bool) {
	var enc []byte
	for _, l := range labels {
		enc = binary.AppendUvarint(enc, uint64(l))
	}
	if len(enc) > size {
		return nil, false
	}
	out := make([]byte, size)
	copy(out, enc)
	return out, true
}

const c12Guard = 8

// c12Traverse runs the reference traversal with an exact block size. It
// returns "" when everything the statement promises was observed, otherwise a
// description of the first deviation (including panics of the code under test).
func c12Traverse(hops []m.SwitchHop, size int) (problem string, tightSeen bool) {
	defer func() {
		if r := recover(); r != nil {
			problem = fmt.Sprintf("panic: %v", r)
		}
	}()
	n := len(hops)
	fwdLabels := make([]m.SwitchLabel, 0, n-1)
	for i := 0; i < n-1; i++ {
		fwdLabels = append(fwdLabels, hops[i].ForwardLabel)
	}
	retLabels := make([]m.SwitchLabel, 0, n-1)
	for i := n - 1; i > 0; i-- {
		retLabels = append(retLabels, hops[i].ReturnLabel)
	}
	wantFwd, ok := c12Encode(fwdLabels, size)
	if !ok {
		return "forward labels do not fit", false
	}
	wantRet, ok := c12Encode(retLabels, size)
	if !ok {
		return "return labels do not fit", false
	}

	buf := make([]byte, size+2*c12Guard)
	for i := range buf {
		buf[i] = 0xA5
	}
	block := buf[c12Guard : c12Guard+size]
	copy(block, wantFwd)
	guardOK := func() bool {
		for i := 0; i < c12Guard; i++ {
			if buf[i] != 0xA5 || buf[c12Guard+size+i] != 0xA5 {
				return false
			}
		}
		return true
	}
	tight := func() {
		if size > 0 && block[size-1] != 0 {
			tightSeen = true
		}
	}
	tight()

	// Forward traversal.
	for i := 0; i < n; i++ {
		next, err := m.NextRotateSwitchBlock(block, hops[i].ReturnLabel)
		if err != nil {
			return fmt.Sprintf("forward hop %d: %v", i, err), tightSeen
		}
		if !guardOK() {
			return fmt.Sprintf("forward hop %d: byte outside the block modified", i), tightSeen
		}
		if next != hops[i].ForwardLabel {
			return fmt.Sprintf("forward hop %d: next label %d, want %d", i, next, hops[i].ForwardLabel), tightSeen
		}
		tight()
	}
	m.TransformToReturnBlock(block)
	if !guardOK() {
		return "transform to return block modified a byte outside the block", tightSeen
	}
	if !bytes.Equal(block, wantRet) {
		return fmt.Sprintf("return block %x, want %x", block, wantRet), tightSeen
	}
	tight()

	// Return traversal.
	for i := n - 1; i >= 0; i-- {
		next, err := m.NextRotateSwitchBlock(block, hops[i].ForwardLabel)
		if err != nil {
			return fmt.Sprintf("return hop %d: %v", i, err), tightSeen
		}
		if !guardOK() {
			return fmt.Sprintf("return hop %d: byte outside the block modified", i), tightSeen
		}
		if next != hops[i].ReturnLabel {
			return fmt.Sprintf("return hop %d: next label %d, want %d", i, next, hops[i].ReturnLabel), tightSeen
		}
		tight()
	}
	m.TransformToReturnBlock(block)
	if !guardOK() {
		return "transform back modified a byte outside the block", tightSeen
	}
	if !bytes.Equal(block, wantFwd) {
		return fmt.Sprintf("restored forward block %x, want %x", block, wantFwd), tightSeen
	}
	return "", tightSeen
}

func c12Describe(hops []m.SwitchHop) string {
	var b bytes.Buffer
	for i, h := range hops {
		if i > 0 {
			b.WriteByte(' ')
		}
		fmt.Fprintf(&b, "%d/%d", h.ForwardLabel, h.ReturnLabel)
	}
	return b.String()
}

type c12Calc struct {
	size     int
	err      error
	panicked any
}

func c12Calculate(hops []m.SwitchHop) (res c12Calc) {
	defer func() {
		if r := recover(); r != nil {
			res.panicked = r
		}
	}()
	sp := &m.SwitchPath{Hops: hops}
	res.size, res.err = sp.CalculateBlockSize()
	return
}

func c12Build(hops []m.SwitchHop) (sp *m.SwitchPath, err error, panicked any) {
	defer func() {
		if r := recover(); r != nil {
			panicked = r
		}
	}()
	sp = &m.SwitchPath{Hops: append([]m.SwitchHop(nil), hops...)}
	err = sp.BuildBlocks()
	return
}

var c12Table = m.NewRoutingTable(m.RoutingTableConfig{})

func c12AddRoute(hops []m.SwitchHop) (added bool, err error, panicked any) {
	defer func() {
		if r := recover(); r != nil {
			panicked = r
		}
	}()
	hs := append([]m.SwitchHop(nil), hops...)
	for i := range hs {
		a := [16]byte{0xfd, 0x10, 0, 0, 0, 0, 0, 0, 0, 0, 0, 0, 0, 0, byte(i >> 8), byte(i) + 1}
		hs[i].Router = netip.AddrFrom16(a)
	}
	added, err = c12Table.AddRoute(m.RoutingTableEntry{
		DstIP:   hs[len(hs)-1].Router,
		NextHop: hs[1].Router,
		Path:    m.SwitchPath{Hops: hs},
		Source:  m.RouteSourceDiscovered,
		Expires: time.Now().Add(time.Hour),
	})
	return added, err, nil
}

// c12Check is the property body for one path.
func c12Check(c *core.Case, hops []m.SwitchHop) {
	desc := c12Describe(hops)
	c.Note("path (fwd/ret per hop): %s", desc)
	n := len(hops)

	classes := map[int]bool{}
	for i, h := range hops {
		if i < n-1 {
			classes[h.ForwardLabel.EncodedSize()] = true
		}
		if i > 0 {
			classes[h.ReturnLabel.EncodedSize()] = true
		}
	}

	calc := c12Calculate(hops)
	if calc.panicked != nil {
		c.Fatalf("CalculateBlockSize panicked: %v", calc.panicked)
	}
	sp, buildErr, buildPanic := c12Build(hops)
	if buildPanic != nil {
		c.Fatalf("BuildBlocks panicked (computed size %d, err %v): %v", calc.size, calc.err, buildPanic)
	}
	_, addErr, addPanic := c12AddRoute(hops)
	if addPanic != nil {
		c.Fatalf("AddRoute panicked on this path: %v", addPanic)
	}

	fits255, _ := c12Traverse(hops, 255)
	canFit := fits255 == ""
	near := false

	if calc.err != nil || buildErr != nil {
		// Refused. Legitimate only if the path really cannot fit.
		if canFit {
			c.Fatalf("valid path refused (CalculateBlockSize err=%v, BuildBlocks err=%v) although it traverses correctly in a 255-byte block", calc.err, buildErr)
		}
		if addErr == nil {
			c.Fatalf("AddRoute accepted a path that BuildBlocks refuses")
		}
		c.Class("refused-cannot-fit")
		near = true
	} else {
		size := calc.size
		if !canFit {
			c.Fatalf("path that cannot fit into 255 bytes was not refused (computed size %d): %s", size, fits255)
		}
		if size > 255 {
			c.Fatalf("computed size %d exceeds the switch block limit without an error", size)
		}
		// Sufficient.
		problem, tight := c12Traverse(hops, size)
		if problem != "" {
			c.Fatalf("traversal with the computed block size %d fails: %s", size, problem)
		}
		// Minimal: the project's own definition (no state leaves the last byte
		// unused in every state) and the behavioural one (one byte less fails).
		if !tight {
			c.Fatalf("computed block size %d wastes space: last byte is zero in every traversal state", size)
		}
		if size > 0 {
			if smaller, _ := c12Traverse(hops, size-1); smaller == "" {
				c.Fatalf("computed block size %d is not minimal: traversal also succeeds with %d", size, size-1)
			}
		}
		// Blocks built by the code equal the independently encoded ones.
		fwd := make([]m.SwitchLabel, 0, n-1)
		for i := 0; i < n-1; i++ {
			fwd = append(fwd, hops[i].ForwardLabel)
		}
		ret := make([]m.SwitchLabel, 0, n-1)
		for i := n - 1; i > 0; i-- {
			ret = append(ret, hops[i].ReturnLabel)
		}
		wantFwd, _ := c12Encode(fwd, size)
		wantRet, _ := c12Encode(ret, size)
		if !bytes.Equal(sp.ForwardBlock, wantFwd) || !bytes.Equal(sp.ReturnBlock, wantRet) {
			c.Fatalf("BuildBlocks produced fwd=%x ret=%x, want fwd=%x ret=%x", sp.ForwardBlock, sp.ReturnBlock, wantFwd, wantRet)
		}
		if addErr != nil {
			c.Fatalf("AddRoute refused a valid path: %v", addErr)
		}
		if size >= 249 {
			near = true
			c.Class("fits-within-6-of-limit")
		}
	}

	nontrivial := len(classes) >= 2 || near
	c.Eval(desc, nontrivial, func() any {
		return map[string]any{"hops": n, "path_fwd/ret": desc, "computed_size": calc.size, "refused": calc.err != nil || buildErr != nil}
	})
	c.Class(fmt.Sprintf("size-classes-%d", len(classes)))
	switch {
	case n <= 12:
		c.Class("hops-2..12")
	case n <= 60:
		c.Class("hops-13..60")
	default:
		c.Class("hops-61..101")
	}
}

func TestC12(t *testing.T) {
	core.Run(t, c12Opts, func(c *core.Case) {
		c12Check(c, c12GenPath(c))
	})
}

// TestC12Exhaustive enumerates every vector of size-class representatives for
// short paths.
func TestC12Exhaustive(t *testing.T) {
	type space struct {
		hops int
		reps []int
	}
	spaces := []space{{2, c12Edges}, {3, c12Edges}, {4, c12Edges}, {5, []int{1, 128, 16384}}}
	if core.Thorough() {
		spaces = append(spaces, space{5, c12Edges}, space{6, []int{1, 128, 65535}})
	}
	for _, sp := range spaces {
		sp := sp
		t.Run(fmt.Sprintf("hops%d-reps%d", sp.hops, len(sp.reps)), func(t *testing.T) {
			core.Exhaust(t, c12Opts, 5_000_000, func(c *core.Case) {
				hops := make([]m.SwitchHop, sp.hops)
				for i := range hops {
					if i < sp.hops-1 {
						hops[i].ForwardLabel = m.SwitchLabel(sp.reps[c.Pick("f", len(sp.reps))])
					}
					if i > 0 {
						hops[i].ReturnLabel = m.SwitchLabel(sp.reps[c.Pick("r", len(sp.reps))])
					}
				}
				c12Check(c, hops)
			})
		})
	}
}
