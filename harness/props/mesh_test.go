package props

// Shared mesh generator for the vnet-based properties (C07-C10, C13).

import (
	"fmt"
	"net/netip"
	"strings"

	"github.com/fxamacker/cbor/v2"

	"github.com/mycoria/mycoria/config"
	"github.com/mycoria/mycoria/frame"
	"github.com/mycoria/mycoria/m"
	"github.com/mycoria/mycoria/peering"
	"github.com/mycoria/mycoria/router"

	"verif/core"
	"verif/ids"
	"verif/vnet"
)

type meshTopo struct {
	family string
	n      int
	edges  [][2]int
}

func (t meshTopo) adj() [][]int {
	a := make([][]int, t.n)
	for _, e := range t.edges {
		a[e[0]] = append(a[e[0]], e[1])
		a[e[1]] = append(a[e[1]], e[0])
	}
	return a
}

func (t meshTopo) hasEdge(a, b int) bool {
	for _, e := range t.edges {
		if (e[0] == a && e[1] == b) || (e[0] == b && e[1] == a) {
			return true
		}
	}
	return false
}

// diameter and cycle presence.
func (t meshTopo) diameter() int {
	adj := t.adj()
	best := 0
	for s := 0; s < t.n; s++ {
		dist := make([]int, t.n)
		for i := range dist {
			dist[i] = -1
		}
		dist[s] = 0
		q := []int{s}
		for len(q) > 0 {
			x := q[0]
			q = q[1:]
			for _, y := range adj[x] {
				if dist[y] < 0 {
					dist[y] = dist[x] + 1
					q = append(q, y)
					if dist[y] > best {
						best = dist[y]
					}
				}
			}
		}
	}
	return best
}

func (t meshTopo) dist(a, b int) int {
	adj := t.adj()
	dist := make([]int, t.n)
	for i := range dist {
		dist[i] = -1
	}
	dist[a] = 0
	q := []int{a}
	for len(q) > 0 {
		x := q[0]
		q = q[1:]
		for _, y := range adj[x] {
			if dist[y] < 0 {
				dist[y] = dist[x] + 1
				q = append(q, y)
			}
		}
	}
	return dist[b]
}

func (t meshTopo) hasCycle() bool { return len(t.edges) >= t.n }

func (t meshTopo) String() string {
	parts := make([]string, len(t.edges))
	for i, e := range t.edges {
		parts[i] = fmt.Sprintf("%d-%d", e[0], e[1])
	}
	return fmt.Sprintf("%s n=%d edges=[%s]", t.family, t.n, strings.Join(parts, " "))
}

// genTopo draws a connected topology with 2..maxN nodes.
func genTopo(c *core.Case, minN, maxN int) meshTopo {
	fam := c.Weighted("topo.family", 3, 3, 2, 2, 2, 1, 5)
	var t meshTopo
	sizeOf := func(lo, hi int) int {
		if lo < minN {
			lo = minN
		}
		if hi > maxN {
			hi = maxN
		}
		if hi < lo {
			hi = lo
		}
		return c.Int("topo.n", lo, hi)
	}
	switch fam {
	case 0:
		t.family, t.n = "line", sizeOf(2, 16)
		for i := 0; i+1 < t.n; i++ {
			t.edges = append(t.edges, [2]int{i, i + 1})
		}
	case 1:
		t.family, t.n = "ring", sizeOf(3, 16)
		for i := 0; i < t.n; i++ {
			t.edges = append(t.edges, [2]int{i, (i + 1) % t.n})
		}
	case 2:
		t.family, t.n = "star", sizeOf(3, 16)
		for i := 1; i < t.n; i++ {
			t.edges = append(t.edges, [2]int{0, i})
		}
	case 3:
		t.family, t.n = "tree", sizeOf(3, 16)
		for i := 1; i < t.n; i++ {
			t.edges = append(t.edges, [2]int{(i - 1) / 2, i})
		}
	case 4:
		t.family = "grid"
		w := c.Int("topo.w", 2, 4)
		h := c.Int("topo.h", 2, 4)
		for w*h > maxN {
			if h > 2 {
				h--
			} else {
				w--
			}
		}
		t.n = w * h
		for y := 0; y < h; y++ {
			for x := 0; x < w; x++ {
				if x+1 < w {
					t.edges = append(t.edges, [2]int{y*w + x, y*w + x + 1})
				}
				if y+1 < h {
					t.edges = append(t.edges, [2]int{y*w + x, (y+1)*w + x})
				}
			}
		}
	case 5:
		t.family, t.n = "complete", sizeOf(3, 5)
		for i := 0; i < t.n; i++ {
			for j := i + 1; j < t.n; j++ {
				t.edges = append(t.edges, [2]int{i, j})
			}
		}
	default:
		t.family, t.n = "random", sizeOf(3, 16)
		for i := 1; i < t.n; i++ {
			t.edges = append(t.edges, [2]int{c.Int("topo.parent", 0, i-1), i})
		}
		extra := c.Int("topo.extra", 0, t.n)
		for k := 0; k < extra; k++ {
			a, b := c.Int("topo.ea", 0, t.n-1), c.Int("topo.eb", 0, t.n-1)
			if a != b && !t.hasEdge(a, b) {
				t.edges = append(t.edges, [2]int{a, b})
			}
		}
	}
	return t
}

type meshOpts struct {
	infoClass int // 0 none, 1 a few listeners, 2 large service lists, 3 mixed per router (nothing .. several kB)
	withTun   bool
	stub      func(i int) bool // routers configured as stub (nil = none)
	spread    bool             // addresses spread over prefixes vs. one routing prefix
	bigLabels bool
}

type mesh struct {
	vn    *vnet.Net
	topo  meshTopo
	nodes []*vnet.Node
	// labelTo[i][label] = neighbour index reached through that label at node i
	labelTo []map[m.SwitchLabel]int
	idx     map[netip.Addr]int
	// par: now and then two frames for one router are handed to two of its
	// workers at once during a flood (see vnet.InjectPar).
	par bool
}

// outsider returns the first identity at or after cands[start] that is not a
// router of the mesh (with spread addresses the mesh draws from every routable
// group, so an "attacker" or "unknown" identity could otherwise be a mesh node,
// whose signatures are of course genuine).
func (ms *mesh) outsider(cands []*ids.Identity, start int) *ids.Identity {
	for k := 0; k < len(cands); k++ {
		id := cands[(start+k)%len(cands)]
		if _, in := ms.idx[id.Addr.IP]; !in {
			return id
		}
	}
	for _, id := range ids.Routable() {
		if _, in := ms.idx[id.Addr.IP]; !in {
			return id
		}
	}
	panic("no identity outside the mesh")
}

// buildMesh creates the routers and virtual links of a topology.
func buildMesh(c *core.Case, t meshTopo, o meshOpts) *mesh {
	ms := &mesh{vn: vnet.New(), topo: t, idx: map[netip.Addr]int{}}
	var pool []*ids.Identity
	if o.spread {
		pool = ids.Routable()
	} else {
		pool = append(pool, ids.Group("eu")...)
	}
	start := c.Pick("mesh.idstart", len(pool))
	for i := 0; i < t.n; i++ {
		id := pool[(start+i)%len(pool)]
		st := config.Store{}
		if o.stub != nil && o.stub(i) {
			st.Router.Stub = true
		}
		class := o.infoClass
		if class == 3 {
			// mixed: every router its own size, from nothing to several kilobytes
			class = c.Pick("mesh.info.node", 5)
		}
		switch class {
		case 4:
			st.Router.Listen = []string{"tcp://192.0.2.1:47369"}
			nsvc := c.Int("mesh.services.big", 8, 30)
			for k := 0; k < nsvc; k++ {
				st.ServiceConfigs = append(st.ServiceConfigs, config.ServiceConfig{
					Name:        fmt.Sprintf("service-%d-%d", i, k),
					Description: strings.Repeat("a longer public service description ", c.Int("mesh.desc.big", 1, 5)),
					URL:         fmt.Sprintf("tcp://svc%d.myco:%d", k, 1000+k),
					Public:      true, Advertise: true,
				})
			}
		case 1:
			st.Router.Listen = []string{"tcp://192.0.2.1:47369", "tcp://[2001:db8::1]:47369"}
			st.Router.IANA = []string{"router.example.net"}
		case 2:
			st.Router.Listen = []string{"tcp://192.0.2.1:47369"}
			nsvc := c.Int("mesh.services", 2, 9)
			for k := 0; k < nsvc; k++ {
				st.ServiceConfigs = append(st.ServiceConfigs, config.ServiceConfig{
					Name:        fmt.Sprintf("service-%d-%d", i, k),
					Description: strings.Repeat("public service description ", c.Int("mesh.desc", 1, 6)),
					URL:         fmt.Sprintf("tcp://svc%d.myco:%d", k, 1000+k),
					Public:      true, Advertise: true,
				})
			}
		}
		n, err := ms.vn.AddNode(fmt.Sprintf("n%d", i), id, vnet.NodeOpts{Store: st, WithTun: o.withTun})
		if err != nil {
			c.Fatalf("mesh node %d: %v", i, err)
		}
		ms.nodes = append(ms.nodes, n)
		ms.idx[n.IP()] = i
		ms.labelTo = append(ms.labelTo, map[m.SwitchLabel]int{})
	}
	for _, e := range t.edges {
		la := meshLabel(c, ms.labelTo[e[0]], o.bigLabels)
		lb := meshLabel(c, ms.labelTo[e[1]], o.bigLabels)
		ms.labelTo[e[0]][la] = e[1]
		ms.labelTo[e[1]][lb] = e[0]
		lat := uint16(c.Int("mesh.lat", 1, 80))
		if _, _, err := ms.vn.Connect(ms.nodes[e[0]], ms.nodes[e[1]], vnet.LinkOpts{LabelA: la, LabelB: lb, LatA: lat, LatB: lat}); err != nil {
			c.Fatalf("mesh link %v: %v", e, err)
		}
	}
	return ms
}

func meshLabel(c *core.Case, used map[m.SwitchLabel]int, big bool) m.SwitchLabel {
	for try := 0; ; try++ {
		var l m.SwitchLabel
		if big && c.Bool("mesh.label.big") {
			l = m.SwitchLabel(c.Uniform("mesh.label2", 128, 16383))
		} else {
			l = m.SwitchLabel(c.Uniform("mesh.label1", 1, 127))
		}
		if _, dup := used[l]; !dup {
			return l
		}
		if try > 50 {
			for x := m.SwitchLabel(1); ; x++ {
				if _, dup := used[x]; !dup {
					return x
				}
			}
		}
	}
}

// meshAnnouncement describes one announce frame seen on a link.
type meshAnnouncement struct {
	origin netip.Addr
	sig    string       // origin signature: identifies the announcement
	hops   []netip.Addr // forwarding routers, oldest first (origin's neighbour ... sender)
	ok     bool
}

// parseAnnouncement decodes an announce frame from wire bytes (nil if the
// frame is not an announcement).
func parseAnnouncement(data []byte) *meshAnnouncement {
	f, err := vnet.View(data)
	if err != nil {
		return nil
	}
	defer f.ReturnToPool()
	mt := f.MessageType()
	if mt != frame.RouterHopPing && mt != frame.RouterHopPingDeprecated {
		return nil
	}
	md := f.MessageData()
	if len(md) < 3 || len(md) < 2+int(md[1]) {
		return nil
	}
	hdr := pingHdr{}
	if err := cbor.Unmarshal(md[2:2+int(md[1])], &hdr); err != nil || hdr["t"] != "announce" {
		return nil
	}
	an := &meshAnnouncement{origin: f.SrcIP(), sig: string(f.AuthData()), ok: true}
	apx := f.AppendixData()
	var chain []netip.Addr // outermost first
	for len(apx) > 0 {
		if len(apx) < 65 {
			an.ok = false
			break
		}
		var att router.AnnouncePingAttachment
		if err := cbor.Unmarshal(apx[:len(apx)-64], &att); err != nil {
			an.ok = false
			break
		}
		chain = append(chain, att.Router.IP)
		apx = att.NextAttachment
	}
	for i := len(chain) - 1; i >= 0; i-- {
		an.hops = append(an.hops, chain[i])
	}
	return an
}

// pingHdr is the harness's own view of a ping header (decoded and encoded as a
// CBOR map, so that it does not depend on the field set of router.PingHeader).
type pingHdr map[string]any

// pingHeaderCBOR encodes a ping header for the given identity fields.
func pingHeaderCBOR(pingID uint64, pingType string, code uint8, followUp bool, hash, keyType string, pub []byte, easing uint64) []byte {
	h := pingHdr{"i": pingID, "t": pingType}
	if code != 0 {
		h["c"] = code
	}
	if followUp {
		h["f"] = true
	}
	if hash != "" {
		h["h"] = hash
	}
	if keyType != "" {
		h["a"] = keyType
	}
	if len(pub) > 0 {
		h["k"] = pub
	}
	if easing != 0 {
		h["e"] = easing
	}
	out, err := cbor.Marshal(h)
	if err != nil {
		panic(err)
	}
	return out
}

func pingHeaderFor(id *ids.Identity, pingID uint64, pingType string, code uint8, followUp bool) []byte {
	return pingHeaderCBOR(pingID, pingType, code, followUp, string(id.Addr.Hash), string(id.Addr.Type), id.Addr.PublicKey, id.Addr.Easing)
}

// linkTiers are the pooled buffer sizes a link frame can fill exactly.
var linkTiers = []int{600, 1600, 5100, 9600}

// exactFit returns the message size for which a frame with the given switch
// block and appendix size, wrapped by a link (12-byte header, 16-byte MAC),
// is exactly tier bytes long; ok is false if no such message size exists.
func exactFit(b *frame.Builder, src, dst netip.Addr, mt frame.MessageType, sw []byte, apx, tier int) (size int, ok bool) {
	probe, err := b.NewFrameV1(src, dst, mt, sw, []byte{0}, make([]byte, apx))
	if err != nil {
		return 0, false
	}
	d, err := probe.FrameDataWithMargins(0, 0)
	base := len(d) - 1
	probe.ReturnToPool()
	if err != nil {
		return 0, false
	}
	size = tier - peering.FrameOffset - peering.FrameOverhead - base
	return size, size >= 1 && size <= 10000
}
