package props

// Native coverage-guided fuzz target for C19 (thorough tier only): the fuzzer
// controls the DNS message on the wire; configuration and stored mappings are
// fixed and contain a name in every combination of sources. Same oracle as
// TestC19: reference precedence computed from the configuration inputs.

import (
	"net/netip"
	"strings"
	"sync"
	"testing"

	mdns "github.com/miekg/dns"

	"github.com/mycoria/mycoria/api/dns"
	"github.com/mycoria/mycoria/config"
	"github.com/mycoria/mycoria/mgr"

	"verif/ids"
	"verif/vnet"
)

type c19FuzzWorld struct {
	srv                       *dns.Server
	alerts                    *mgr.AlertMgr
	resolve, friend, mappings map[string]netip.Addr
}

var (
	c19FuzzOnce sync.Once
	c19FuzzW    *c19FuzzWorld
)

func c19FuzzSetup(t testing.TB) *c19FuzzWorld {
	c19FuzzOnce.Do(func() {
		r := ids.Routable()
		ip := func(i int) netip.Addr { return r[i%len(r)].Addr.IP }
		w := &c19FuzzWorld{resolve: map[string]netip.Addr{}, friend: map[string]netip.Addr{}, mappings: map[string]netip.Addr{}}
		st := config.Store{ResolveConfig: map[string]string{}}
		for i, n := range []string{"files.myco", "WWW.Srv.myco.", "router.myco", "wpad.myco", "alice.myco", "xn--mnchen-3ya.myco", "both.myco"} {
			st.ResolveConfig[n] = ip(i).String()
			w.resolve[c19Norm(n)] = ip(i)
		}
		for i, n := range []string{"alice", "bob", "myco", "open", "both", "a-b_c"} {
			st.FriendConfigs = append(st.FriendConfigs, config.FriendConfig{Name: n, IP: ip(10 + i).String()})
			w.friend[n+".myco"] = ip(10 + i)
		}
		vn := vnet.New()
		node, err := vn.AddNode("dns", ids.Get(3), vnet.NodeOpts{Store: st})
		if err != nil {
			t.Fatalf("configuration rejected: %v", err)
		}
		for i, n := range []string{"alice.myco", "bob.myco", "files.myco", "router.myco", "open.myco", "wpad.myco", "myco.myco", "carol.myco", "www.carol.myco", "alice.mycology.myco", "x1.myco", "both.myco"} {
			if err := node.Store.SaveMapping(n, ip(20+i)); err != nil {
				t.Fatalf("mapping: %v", err)
			}
			w.mappings[n] = ip(20 + i)
		}
		w.srv, err = dns.New(node, c19Conn{}, node.Store)
		if err != nil {
			t.Fatalf("dns.New: %v", err)
		}
		w.alerts = mgr.NewAlertMgr(w.srv.Manager())
		c19FuzzW = w
	})
	return c19FuzzW
}

func (w *c19FuzzWorld) reference(norm string) (netip.Addr, bool) {
	if norm == "router.myco" || norm == "open.myco" {
		return config.DefaultAPIAddress, true
	}
	if ip, ok := w.resolve[norm]; ok {
		return ip, true
	}
	if norm == "wpad.myco" || norm == "myco.myco" {
		return netip.Addr{}, false
	}
	if ip, ok := w.friend[norm]; ok {
		return ip, true
	}
	if ip, ok := w.mappings[norm]; ok {
		return ip, true
	}
	return netip.Addr{}, false
}

func FuzzC19Query(f *testing.F) {
	for _, n := range []string{"alice.myco.", "ALICE.MYCO.", "router.myco.", "wpad.myco.", "carol.myco.", "www.carol.myco.", "alice.mycology.myco.", "example.com.", "myco.", ".", `a\.b.myco.`, "xn--mnchen-3ya.myco.", "both.myco."} {
		for _, qt := range []uint16{mdns.TypeAAAA, mdns.TypeA, mdns.TypeSVCB, mdns.TypeHTTPS, mdns.TypeANY, mdns.TypeTXT} {
			m := new(mdns.Msg)
			m.SetQuestion(n, qt)
			if b, err := m.Pack(); err == nil {
				f.Add(b)
			}
		}
	}
	f.Add([]byte{})
	f.Add(make([]byte, 12))
	f.Fuzz(func(t *testing.T, wire []byte) {
		w := c19FuzzSetup(t)
		if len(wire) < 12 || len(wire) > 4096 {
			return
		}
		be := func(i int) uint16 { return uint16(wire[i])<<8 | uint16(wire[i+1]) }
		dh := mdns.Header{Id: be(0), Bits: be(2), Qdcount: be(4), Ancount: be(6), Nscount: be(8), Arcount: be(10)}
		if mdns.DefaultMsgAcceptFunc(dh) != mdns.MsgAccept {
			return // the library answers these itself
		}
		req := new(mdns.Msg)
		if err := req.Unpack(wire); err != nil || len(req.Question) != 1 {
			return
		}
		wr := &c19Writer{}
		w.srv.ServeDNS(wr, req)
		if up := w.alerts.Export(); len(up.Alerts) > 0 {
			t.Fatalf("query %q crashed the handler: %s", req.Question[0].Name, up.Alerts[0].Message)
		}
		if len(wr.msgs) != 1 {
			t.Fatalf("query %q produced %d replies, want exactly one", req.Question[0].Name, len(wr.msgs))
		}
		rep := wr.msgs[0]
		q := req.Question[0]
		lower := strings.ToLower(q.Name)
		underMyco := strings.HasSuffix(lower, ".myco.")
		norm := strings.TrimSuffix(lower, ".")
		typeOK := q.Qtype == mdns.TypeA || q.Qtype == mdns.TypeAAAA || q.Qtype == mdns.TypeSVCB || q.Qtype == mdns.TypeHTTPS || q.Qtype == mdns.TypeANY
		classOK := q.Qclass == mdns.ClassINET || q.Qclass == mdns.ClassANY
		refIP, resolving := w.reference(norm)
		var got []netip.Addr
		for _, sec := range [][]mdns.RR{rep.Answer, rep.Extra, rep.Ns} {
			for _, rr := range sec {
				switch x := rr.(type) {
				case *mdns.AAAA:
					if ip, ok := netip.AddrFromSlice(x.AAAA); ok {
						got = append(got, ip)
					}
				case *mdns.SVCB:
					for _, kv := range x.Value {
						if h, ok := kv.(*mdns.SVCBIPv6Hint); ok {
							for _, hip := range h.Hint {
								if ip, ok := netip.AddrFromSlice(hip); ok {
									got = append(got, ip)
								}
							}
						}
					}
				}
			}
		}
		if underMyco && typeOK && classOK && resolving {
			if rep.Rcode != mdns.RcodeSuccess || len(got) == 0 {
				t.Fatalf("query %q type %d class %d should resolve to %s, got rcode %d with %d addresses", q.Name, q.Qtype, q.Qclass, refIP, rep.Rcode, len(got))
			}
			for _, ip := range got {
				if ip != refIP {
					t.Fatalf("query %q answered with %s, the first matching source holds %s", q.Name, ip, refIP)
				}
			}
		} else if rep.Rcode != mdns.RcodeNameError || len(rep.Answer) != 0 || len(got) != 0 {
			t.Fatalf("query %q type %d class %d must get a bare name error (under .myco=%v type ok=%v class ok=%v resolving=%v), got rcode %d, %d answers, addresses %v", q.Name, q.Qtype, q.Qclass, underMyco, typeOK, classOK, resolving, rep.Rcode, len(rep.Answer), got)
		}
		if rep.Id != req.Id || !rep.Response {
			t.Fatalf("query %q: reply id / response flag wrong", q.Name)
		}
	})
}
