package props

// C11 — Routing table: exact best-first lookups, bounded size, peers never evicted.
//
// Generator: a router address from several classes (geo-marked with a country
// prefix that starts at its region's base, geo-marked elsewhere, roaming,
// organisation) -> GetRoutablePrefixesFor with limits scaled down to 1..4; a
// small address universe spread over own prefix / region / continent / other
// continents / special and unroutable ranges; stateful operation sequences of
// AddRoute in the shapes the system produces (link registration, announce from
// a peer, gossip via k relays, discovered), re-announcements, RemoveNextHop,
// RemoveDisconnected (with and without peer lists), Clean, ageing + Clean.
// Oracle: validity predicates over table snapshots before/after each step
// (hook VerifEntries) plus lookups of every destination after every step.

import (
	"fmt"
	"net/netip"
	"strings"
	"testing"
	"time"

	"github.com/mycoria/mycoria/m"

	"verif/core"
	"verif/ids"
)

var c11Opts = core.Opts{ID: "C11", Quick: 4000, Thorough: 250000}

type c11World struct {
	c        *core.Case
	tbl      *m.RoutingTable
	self     netip.Addr
	prefixes []m.RoutablePrefix
	universe []netip.Addr
	peers    []netip.Addr
	ops      []string
	addsTo   map[netip.Addr]int
	nt       bool
	// focus: one peer that a third of the operations are about (several routes
	// to it over other peers, re-announcements, its link going down), so that
	// long histories about one destination are frequent.
	focus netip.Addr
}

func c11EntryKey(e *m.RoutingTableEntry, withExpiry bool) string {
	var b strings.Builder
	fmt.Fprintf(&b, "%s|%s|%d|%v|", e.DstIP, e.NextHop, e.Source, e.Stub)
	for _, h := range e.Path.Hops {
		fmt.Fprintf(&b, "%s,%d,%d,%d;", h.Router, h.Delay, h.ForwardLabel, h.ReturnLabel)
	}
	if withExpiry {
		fmt.Fprintf(&b, "|%d", e.Expires.UnixNano())
	}
	return b.String()
}

func c11Multiset(es []m.RoutingTableEntry, withExpiry bool) map[string]int {
	out := map[string]int{}
	for i := range es {
		out[c11EntryKey(&es[i], withExpiry)]++
	}
	return out
}

func (w *c11World) limitFor(ip netip.Addr) (m.RoutablePrefix, bool) {
	for _, rp := range w.prefixes {
		if rp.BasePrefix.Contains(ip) {
			return rp, true
		}
	}
	return m.RoutablePrefix{}, false
}

func (w *c11World) log(format string, args ...any) {
	s := fmt.Sprintf(format, args...)
	w.ops = append(w.ops, s)
	w.c.Note("%s", s)
}

// genAddr builds an address of the given class relative to the router's own.
func c11GenAddr(c *core.Case, self netip.Addr, ownBits int, class int, tail int) netip.Addr {
	a := self.As16()
	t := byte(tail)
	clearFrom := func(bit int) {
		for i := bit; i < 128; i++ {
			a[i/8] &^= 0x80 >> (i % 8)
		}
	}
	switch class {
	case 0: // inside the own routing prefix
		clearFrom(ownBits)
		a[8], a[15] = 0x11, t
	case 1: // same region, other country bits
		clearFrom(16)
		a[2] = 0xC0 | t&0x0F<<2
		a[15] = t
	case 2: // same continent, other region
		clearFrom(12)
		a[1] = a[1]&0xF0 | ((a[1]&0x0F + 1 + t%3) & 0x0F)
		a[15] = t
	case 3: // other continent
		clearFrom(8)
		cont := (self.As16()[1]>>4&0x7 + 1 + t%5) & 0x7
		if cont == 0 {
			cont = 3
		}
		a[1] = cont<<4 | t&0x0F
		a[15] = t
	case 4: // special ranges
		clearFrom(8)
		a[1] = []byte{0x00, 0x01, 0x0F, 0x0E}[t%4]
		a[3], a[15] = 0x22, t|1
	default: // privacy range: not routable
		clearFrom(8)
		a[1] = 0x80 | t&0x3F
		a[15] = t
	}
	return netip.AddrFrom16(a)
}

func c11Setup(c *core.Case) *c11World {
	groups := []string{"country-AT", "country-DE", "country-FR", "country-JP", "eu", "na", "roaming", "org", "eu-region"}
	g := ids.Group(groups[c.Pick("router.group", len(groups))])
	self := g[c.Pick("router.id", len(g))].Addr.IP
	// Derive the own prefix like router.New does.
	ownPrefix := netip.PrefixFrom(self, m.RegionPrefixBits).Masked()
	if marker, err := m.LookupCountryMarker(self); err == nil {
		ownPrefix = marker.Prefix
	}
	prefixes := m.GetRoutablePrefixesFor(self, ownPrefix)
	for i := range prefixes {
		prefixes[i].EntriesPerPrefix = c.Int(fmt.Sprintf("limit%d", i), 1, 4)
	}
	w := &c11World{c: c, self: self, prefixes: prefixes, addsTo: map[netip.Addr]int{}}
	w.tbl = m.NewRoutingTable(m.RoutingTableConfig{RoutablePrefixes: prefixes, RouterIP: self})
	n := c.Int("universe", 6, 22)
	seen := map[netip.Addr]bool{self: true}
	for i := 0; i < n; i++ {
		class := c.Weighted("addr.class", 5, 4, 3, 3, 2, 1)
		tail := c.Int("addr.tail", 1, 40)
		a := c11GenAddr(c, self, ownPrefix.Bits(), class, tail)
		if edge := c.Weighted("addr.edge", 10, 1, 1); edge > 0 {
			// The very last (or very first) address of the routing prefix the
			// address falls in.
			for _, rp := range prefixes {
				if rp.BasePrefix.Contains(a) && rp.RoutingBits > 0 && rp.RoutingBits < 128 {
					b := a.As16()
					for bit := rp.RoutingBits; bit < 128; bit++ {
						if edge == 1 {
							b[bit/8] |= 0x80 >> (bit % 8)
						} else {
							b[bit/8] &^= 0x80 >> (bit % 8)
						}
					}
					if edge == 2 {
						b[15] |= 1 // (the base address itself is not a router address)
					}
					a = netip.AddrFrom16(b)
					c.Class(fmt.Sprintf("universe/address-at-the-edge-of-its-routing-prefix-%d", edge))
					break
				}
			}
		}
		if !seen[a] {
			seen[a] = true
			w.universe = append(w.universe, a)
		}
	}
	if len(w.universe) < 3 {
		for t := 50; len(w.universe) < 3; t++ {
			a := c11GenAddr(c, self, ownPrefix.Bits(), 0, t)
			if !seen[a] {
				seen[a] = true
				w.universe = append(w.universe, a)
			}
		}
	}
	np := c.Int("peers", 1, 4)
	if np > len(w.universe) {
		np = len(w.universe)
	}
	w.peers = w.universe[:np]
	w.log("router %s own-prefix %s limits %v universe %v peers %d", self, ownPrefix, func() []int {
		var l []int
		for _, p := range prefixes {
			l = append(l, p.EntriesPerPrefix)
		}
		return l
	}(), w.universe, np)
	return w
}

// focusOr returns the focus peer (one time in two) or any peer.
func (w *c11World) focusOr(label string) netip.Addr {
	if !w.focus.IsValid() {
		w.focus = w.peers[w.c.Pick("focus", len(w.peers))]
	}
	if w.c.Bool(label + ".focus") {
		return w.focus
	}
	return w.peers[w.c.Pick(label, len(w.peers))]
}

func (w *c11World) pickAddr(label string) netip.Addr {
	return w.universe[w.c.Pick(label, len(w.universe))]
}

func (w *c11World) label(name string) m.SwitchLabel {
	return m.SwitchLabel(core.OneOf(w.c, name, 1, 2, 5, 127, 128, 300, 16383))
}

func (w *c11World) opAdd() {
	c := w.c
	var e m.RoutingTableEntry
	shape := c.Weighted("add.shape", 3, 3, 10, 3, 4)
	var existing []m.RoutingTableEntry
	if shape == 4 {
		for _, x := range w.tbl.VerifEntries() {
			if x.Source != m.RouteSourcePeer && len(x.Path.Hops) >= 2 {
				existing = append(existing, x)
			}
		}
		if len(existing) == 0 {
			shape = 2
		}
	}
	switch shape {
	case 4: // a route the table holds is announced again: same relays and labels, other delays (latency fluctuates between rounds)
		x := existing[c.Pick("add.again", len(existing))]
		if c.Bool("add.again.focus") {
			var about []m.RoutingTableEntry
			for _, y := range existing {
				if y.DstIP == w.focus {
					about = append(about, y)
				}
			}
			if len(about) > 0 {
				x = about[c.Pick("add.again.focus.which", len(about))]
			}
		}
		hops := append([]m.SwitchHop(nil), x.Path.Hops...)
		for i := 0; i < len(hops)-1; i++ {
			hops[i].Delay = c11Delay(c, "add.again.delay")
		}
		e = m.RoutingTableEntry{DstIP: x.DstIP, NextHop: x.NextHop, Source: x.Source, Stub: x.Stub,
			Path: m.SwitchPath{Hops: hops}, Expires: time.Now().Add(time.Duration(c.Int("add.exp.min", 11, 600)) * time.Minute)}
		c.Class("route-announced-again-with-other-delays")
	case 0: // link registration
		p := w.focusOr("add.peer")
		e = m.RoutingTableEntry{DstIP: p, NextHop: p, Source: m.RouteSourcePeer}
	case 1: // announce from a peer
		p := w.peers[c.Pick("add.peer", len(w.peers))]
		e = m.RoutingTableEntry{DstIP: p, NextHop: p, Source: m.RouteSourcePeer, Stub: c.Bool("add.stub"),
			Path: m.SwitchPath{Hops: []m.SwitchHop{
				{Router: w.self, Delay: c11Delay(c, "add.d0"), ForwardLabel: w.label("add.l0")},
				{Router: p, ReturnLabel: w.label("add.l1")},
			}}}
	default: // gossip / discovered via k relays
		nh := w.peers[c.Pick("add.nexthop", len(w.peers))]
		dst := w.pickAddr("add.dst")
		if c.Chance("add.dst.is-a-peer", 1, 3) {
			// a router that is (or becomes) a direct peer is also known through others
			dst = w.focusOr("add.dst.peer")
			if dst == nh {
				dst = w.pickAddr("add.dst")
			}
		}
		k := c.Int("add.relays", 0, 4)
		hops := []m.SwitchHop{{Router: w.self, Delay: c11Delay(c, "add.d0"), ForwardLabel: w.label("add.l0")}}
		hops = append(hops, m.SwitchHop{Router: nh, Delay: c11Delay(c, "add.d1"), ForwardLabel: w.label("add.f1"), ReturnLabel: w.label("add.r1")})
		for i := 0; i < k; i++ {
			hops = append(hops, m.SwitchHop{Router: w.pickAddr("add.relay"), Delay: c11Delay(c, "add.dk"), ForwardLabel: w.label("add.fk"), ReturnLabel: w.label("add.rk")})
		}
		hops = append(hops, m.SwitchHop{Router: dst, ReturnLabel: w.label("add.rl")})
		e = m.RoutingTableEntry{DstIP: dst, NextHop: nh, Source: m.RouteSourceGossip, Stub: c.Bool("add.stub"),
			Path: m.SwitchPath{Hops: hops}, Expires: time.Now().Add(time.Duration(c.Int("add.exp.min", 11, 600)) * time.Minute)}
		if shape == 3 {
			e.Source = m.RouteSourceDiscovered
		}
	}
	w.doAdd(e)
}

// opRound: an announcement round about the focus destination - most of the
// routes the table holds for it are announced again, each with new delays
// (links got slower or faster), in table order.
func (w *c11World) opRound() {
	c := w.c
	if !w.focus.IsValid() {
		w.focus = w.peers[c.Pick("focus", len(w.peers))]
	}
	slower := c.Bool("round.slower")
	n := 0
	for _, x := range w.tbl.VerifEntries() {
		if x.DstIP != w.focus || x.Source == m.RouteSourcePeer || len(x.Path.Hops) < 2 || !c.Chance("round.this", 2, 3) {
			continue
		}
		hops := append([]m.SwitchHop(nil), x.Path.Hops...)
		for i := 0; i < len(hops)-1; i++ {
			hops[i].Delay = c11Delay(c, "round.delay")
			if slower && hops[i].Delay < 60000 {
				hops[i].Delay += uint16(c.Int("round.slower.by", 5, 200))
			}
		}
		w.doAdd(m.RoutingTableEntry{DstIP: x.DstIP, NextHop: x.NextHop, Source: x.Source, Stub: x.Stub,
			Path: m.SwitchPath{Hops: hops}, Expires: time.Now().Add(time.Duration(c.Int("add.exp.min", 11, 600)) * time.Minute)})
		n++
	}
	if n > 0 {
		c.Class("announcement-round-about-one-destination")
	}
}

// doAdd adds one route and checks what AddRoute reports against the table.
func (w *c11World) doAdd(e m.RoutingTableEntry) {
	c := w.c
	before := w.tbl.VerifEntries()
	added, err := w.tbl.AddRoute(e)
	after := w.tbl.VerifEntries()
	w.log("add dst=%s via=%s src=%d hops=%d -> added=%v err=%v", e.DstIP, e.NextHop, e.Source, len(e.Path.Hops), added, err)
	if err != nil || !added {
		b, a := c11Multiset(before, true), c11Multiset(after, true)
		if !c11Equal(b, a) {
			c.Fatalf("AddRoute returned added=%v err=%v but the table changed", added, err)
		}
		return
	}
	w.addsTo[e.DstIP]++
	{
		peer, others := false, 0
		for i := range after {
			if after[i].DstIP == e.DstIP {
				if after[i].Source == m.RouteSourcePeer {
					peer = true
				} else {
					others++
				}
			}
		}
		if peer && others >= 3 {
			c.Class("destination-with-a-peer-route-and-three-others")
		}
	}
	// Present now.
	want := c11EntryKey(&e, false)
	found := false
	for i := range after {
		if c11EntryKey(&after[i], false) == want {
			found = true
			if after[i].RoutingPrefix.IsValid() && !after[i].RoutingPrefix.Contains(e.DstIP) {
				c.Fatalf("added entry has routing prefix %s that does not contain its destination", after[i].RoutingPrefix)
			}
		}
	}
	if !found {
		c.Fatalf("AddRoute returned added=true but no entry equal to the request is in the table")
	}
	// At most one other entry was displaced, and only one for the same destination.
	b, a := c11Multiset(before, false), c11Multiset(after, false)
	lost := 0
	for k, n := range b {
		if a[k] < n {
			lost += n - a[k]
			for i := range before {
				if c11EntryKey(&before[i], false) == k {
					if before[i].DstIP != e.DstIP {
						c.Fatalf("adding a route to %s removed a route to %s", e.DstIP, before[i].DstIP)
					}
					if before[i].Source == m.RouteSourcePeer && e.Source != m.RouteSourcePeer {
						c.Fatalf("adding a non-peer route evicted the direct-peer route to %s", e.DstIP)
					}
				}
			}
		}
	}
	if lost > 1 {
		c.Fatalf("one AddRoute displaced %d entries", lost)
	}
}

func c11Equal(a, b map[string]int) bool {
	if len(a) != len(b) {
		return false
	}
	for k, v := range a {
		if b[k] != v {
			return false
		}
	}
	return true
}

func c11HasHop(e *m.RoutingTableEntry, r netip.Addr) bool {
	for _, h := range e.Path.Hops {
		if h.Router == r {
			return true
		}
	}
	return false
}

func (w *c11World) markRemovalNT() {
	for _, n := range w.addsTo {
		if n >= 3 {
			w.nt = true
		}
	}
}

func (w *c11World) opRemoveNextHop() {
	c := w.c
	p := w.pickAddr("rm.nexthop")
	if c.Chance("rm.nexthop.focus", 1, 3) {
		p = w.focus
	}
	before := w.tbl.VerifEntries()
	removed := w.tbl.RemoveNextHop(p)
	after := w.tbl.VerifEntries()
	w.log("removeNextHop %s -> %d", p, removed)
	w.markRemovalNT()
	var want []m.RoutingTableEntry
	for _, e := range before {
		if e.NextHop != p {
			want = append(want, e)
		}
	}
	if !c11Equal(c11Multiset(want, true), c11Multiset(after, true)) {
		c.Fatalf("RemoveNextHop(%s): table afterwards is not exactly the entries with another next hop (%d before, %d after, %d expected)", p, len(before), len(after), len(want))
	}
	if removed != len(before)-len(after) {
		c.Fatalf("RemoveNextHop reported %d removals, table shrank by %d", removed, len(before)-len(after))
	}
}

func (w *c11World) opRemoveDisconnected() {
	c := w.c
	r := w.pickAddr("rd.router")
	var list []netip.Addr
	if c.Bool("rd.list") {
		for i, n := 0, c.Int("rd.n", 1, 3); i < n; i++ {
			list = append(list, w.pickAddr("rd.peer"))
		}
	}
	before := w.tbl.VerifEntries()
	removed := w.tbl.RemoveDisconnected(r, list)
	after := w.tbl.VerifEntries()
	w.log("removeDisconnected %s %v -> %d", r, list, removed)
	w.markRemovalNT()
	am := c11Multiset(after, true)
	inList := func(a netip.Addr) bool {
		for _, l := range list {
			if l == a {
				return true
			}
		}
		return false
	}
	for i := range before {
		e := &before[i]
		k := c11EntryKey(e, true)
		survived := am[k] > 0
		if survived {
			am[k]--
		}
		if len(list) == 0 {
			should := e.DstIP == r || e.NextHop == r || c11HasHop(e, r)
			if should && survived {
				c.Fatalf("RemoveDisconnected(%s): route to %s via %s still contains the disconnected router", r, e.DstIP, e.NextHop)
			}
			if !should && !survived {
				c.Fatalf("RemoveDisconnected(%s) removed a route to %s that does not contain that router", r, e.DstIP)
			}
			continue
		}
		// With a peer list.
		adjacent, repeats := false, false
		seen := map[netip.Addr]bool{}
		for j, h := range e.Path.Hops {
			if seen[h.Router] {
				repeats = true
			}
			seen[h.Router] = true
			if h.Router == r {
				if j > 0 && inList(e.Path.Hops[j-1].Router) {
					adjacent = true
				}
				if j+1 < len(e.Path.Hops) && inList(e.Path.Hops[j+1].Router) {
					adjacent = true
				}
			}
		}
		if !survived && !adjacent {
			c.Fatalf("RemoveDisconnected(%s, %v) removed a route to %s in which %s is not adjacent to a listed peer", r, list, e.DstIP, r)
		}
		if survived && adjacent && !repeats {
			c.Fatalf("RemoveDisconnected(%s, %v): loop-free route to %s with %s next to a listed peer survived", r, list, e.DstIP, r)
		}
	}
	if removed != len(before)-len(after) {
		c.Fatalf("RemoveDisconnected reported %d removals, table shrank by %d", removed, len(before)-len(after))
	}
	if len(after) > len(before) {
		c.Fatalf("RemoveDisconnected grew the table")
	}
}

func (w *c11World) opClean(age bool) {
	c := w.c
	if age {
		d := time.Duration(core.OneOf(c, "age.min", 5, 30, 120, 400, 700)) * time.Minute
		w.tbl.VerifAgeEntries(d)
		w.log("age %v", d)
	}
	before := w.tbl.VerifEntries()
	now := time.Now()
	w.tbl.Clean()
	after := w.tbl.VerifEntries()
	w.log("clean: %d -> %d entries", len(before), len(after))
	w.markRemovalNT()
	bm := c11Multiset(before, true)
	for i := range after {
		k := c11EntryKey(&after[i], true)
		if bm[k] == 0 {
			c.Fatalf("Clean produced an entry that was not in the table before: %s", k)
		}
		bm[k]--
		e := &after[i]
		if e.Source != m.RouteSourcePeer && e.Expires.Before(now) {
			c.Fatalf("expired route to %s (expired %v ago) survived Clean", e.DstIP, now.Sub(e.Expires))
		}
	}
	// Peers never removed by Clean.
	am := c11Multiset(after, true)
	for i := range before {
		if before[i].Source == m.RouteSourcePeer && am[c11EntryKey(&before[i], true)] == 0 {
			c.Fatalf("Clean removed the direct-peer route to %s", before[i].DstIP)
		}
	}
	// Gossip routes per routing prefix within the limit.
	perPrefix := map[netip.Prefix]int{}
	for i := range after {
		if after[i].Source == m.RouteSourceGossip {
			perPrefix[after[i].RoutingPrefix]++
		}
	}
	for i := range after {
		e := &after[i]
		if e.Source != m.RouteSourceGossip {
			continue
		}
		rp, ok := w.limitFor(e.DstIP)
		if ok && perPrefix[e.RoutingPrefix] > rp.EntriesPerPrefix {
			c.Fatalf("after Clean routing prefix %s holds %d gossip routes, limit is %d", e.RoutingPrefix, perPrefix[e.RoutingPrefix], rp.EntriesPerPrefix)
		}
	}
}

// c11Delay draws a hop delay: mostly small, sometimes so large that a few hops
// add up to more than the 16-bit total can hold.
func c11Delay(c *core.Case, label string) uint16 {
	if c.Chance(label+".huge", 1, 12) {
		return uint16(core.OneOf(c, label+".h", 65535, 40000, 30000, 65000))
	}
	return uint16(c.Int(label, 0, 60))
}

// c11TotalDelay: the total delay of a path as the statement's ordering needs it
// (every hop counts at least the minimum hop delay; saturating, never wrapping).
func c11TotalDelay(hops []m.SwitchHop) uint16 {
	var sum uint
	for _, h := range hops {
		if h.Delay < m.MinHopDelay {
			sum += m.MinHopDelay
		} else {
			sum += uint(h.Delay)
		}
	}
	if sum > 65534 {
		return 65534
	}
	return uint16(sum)
}

// invariants that hold after every step.
func (w *c11World) invariant(step string) {
	c := w.c
	es := w.tbl.VerifEntries()
	byDst := map[netip.Addr][]*m.RoutingTableEntry{}
	perPrefix := map[netip.Prefix]int{}
	peers := map[netip.Addr]int{}
	for i := range es {
		e := &es[i]
		byDst[e.DstIP] = append(byDst[e.DstIP], e)
		if len(e.Path.Hops) >= 2 {
			if want := c11TotalDelay(e.Path.Hops); e.Path.TotalDelay != want {
				c.Fatalf("after %s: route to %s over %d hops is ranked with total delay %d, its hop delays add up to %d", step, e.DstIP, len(e.Path.Hops), e.Path.TotalDelay, want)
			}
		}
		if e.Source == m.RouteSourceGossip {
			perPrefix[e.RoutingPrefix]++
		}
		if e.Source == m.RouteSourcePeer {
			peers[e.DstIP]++
		}
	}
	for dst, list := range byDst {
		nonPeer := 0
		var best *m.RoutingTableEntry
		hasPeer := false
		for _, e := range list {
			if e.Source != m.RouteSourcePeer {
				nonPeer++
			} else {
				hasPeer = true
			}
			if best == nil || e.Path.TotalHops < best.Path.TotalHops ||
				(e.Path.TotalHops == best.Path.TotalHops && e.Path.TotalDelay < best.Path.TotalDelay) {
				best = e
			}
		}
		if nonPeer > 3 {
			c.Fatalf("after %s: %d non-peer routes kept for destination %s", step, nonPeer, dst)
		}
		for name, lookup := range map[string]func(netip.Addr) (*m.RoutingTableEntry, bool){"LookupNearest": w.tbl.LookupNearest, "LookupNearestRoute": w.tbl.LookupNearestRoute} {
			got, isDst := lookup(dst)
			if got == nil || got.DstIP != dst || !isDst {
				c.Fatalf("after %s: %s(%s) = %v isDestination=%v although the table holds %d route(s) to it", step, name, dst, c11Dst(got), isDst, len(list))
			}
			if hasPeer && got.Source != m.RouteSourcePeer {
				c.Fatalf("after %s: %s(%s) returned a non-peer route although a direct-peer route exists", step, name, dst)
			}
			if got.Path.TotalHops != best.Path.TotalHops || got.Path.TotalDelay != best.Path.TotalDelay {
				c.Fatalf("after %s: %s(%s) returned hops=%d delay=%d, best is hops=%d delay=%d", step, name, dst, got.Path.TotalHops, got.Path.TotalDelay, best.Path.TotalHops, best.Path.TotalDelay)
			}
		}
	}
	// (No bound between cleanups is asserted: the statement limits gossip routes
	// per prefix only after a cleanup; an earlier derived "tripwire" bound raised
	// two false alarms and was removed.)
	_ = perPrefix
	// Absent addresses are not reported as destinations.
	for _, a := range w.universe {
		if len(byDst[a]) == 0 {
			if got, isDst := w.tbl.LookupNearest(a); isDst {
				c.Fatalf("after %s: LookupNearest(%s) reports a destination match (%v) but the table has no route to it", step, a, c11Dst(got))
			}
			if got, isDst := w.tbl.LookupNearestRoute(a); isDst {
				c.Fatalf("after %s: LookupNearestRoute(%s) reports a destination match (%v) but the table has no route to it", step, a, c11Dst(got))
			}
		}
	}
}

func c11Dst(e *m.RoutingTableEntry) string {
	if e == nil {
		return "<nil>"
	}
	return e.DstIP.String()
}

func c11Run(c *core.Case, maxOps int) {
	w := c11Setup(c)
	n := c.Int("ops", 1, maxOps)
	peerSnapshot := func() map[netip.Addr]bool {
		out := map[netip.Addr]bool{}
		for _, e := range w.tbl.VerifEntries() {
			if e.Source == m.RouteSourcePeer {
				out[e.DstIP] = true
			}
		}
		return out
	}
	for i := 0; i < n; i++ {
		peersBefore := peerSnapshot()
		var step string
		switch c.Weighted("op", 0, 50, 8, 10, 8, 8, 6, 6, 6) {
		case 8:
			w.opRound()
			step = "add"
		case 1:
			w.opAdd()
			step = "add"
		case 7:
			// Burst of additions (fills prefixes beyond their limits).
			for j, k := 0, c.Int("burst", 4, 14); j < k; j++ {
				w.opAdd()
				w.invariant("add(burst)")
			}
			step = "add"
		case 2:
			w.opRemoveNextHop()
			step = "removeNextHop"
		case 3:
			w.opRemoveDisconnected()
			step = "removeDisconnected"
		case 4:
			w.opClean(false)
			step = "clean"
		case 5:
			w.opClean(true)
			step = "age+clean"
		default:
			// lookups of possible paths must not crash and only return table entries.
			dst := w.pickAddr("lpp.dst")
			res := w.tbl.LookupPossiblePaths(dst, c.Int("lpp.max", 1, 5), m.AddrDistance{}, c.Bool("lpp.distinct"), nil)
			keys := c11Multiset(w.tbl.VerifEntries(), true)
			for _, e := range res {
				if keys[c11EntryKey(e, true)] == 0 {
					c.Fatalf("LookupPossiblePaths returned an entry that is not in the table")
				}
			}
			step = "lookupPossiblePaths"
		}
		// Direct-peer routes disappear only through a removal naming that peer.
		if step != "removeNextHop" && step != "removeDisconnected" {
			after := peerSnapshot()
			for p := range peersBefore {
				if !after[p] {
					c.Fatalf("direct-peer route to %s disappeared during %s", p, step)
				}
			}
		}
		w.invariant(step)
	}
	c.Eval(strings.Join(w.ops, ";"), w.nt, func() any { return map[string]any{"ops": w.ops} })
	if w.nt {
		c.Class("removal-or-clean-after-3-adds-to-one-destination")
	}
}

func TestC11(t *testing.T) {
	core.Run(t, c11Opts, func(c *core.Case) { c11Run(c, 60) })
}
