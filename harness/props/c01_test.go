package props

// C01 — Self-certifying addresses: an identity is accepted only if address = hash(key).
//
// Generator: valid identities (pool identities; variants re-derived under the
// other hash algorithms and with non-zero easing so that the address really is
// the digest) and single-field corruptions of them (address bit flip, address
// outside fd00::/8, hash name replaced by another valid / unknown / empty /
// long name, key type replaced / empty / 256+ bytes, public key bit flip /
// truncation / extension, easing changed, stored form with non-hex or
// odd-length hex, wrong / short / foreign private key); digest-consistent but
// odd identities (31/33-byte key, unknown key type) found by brute force.
// Entry points: AddressFromStorage, VerifyAddress, (Public)AddressFromKeyPair,
// the instance constructor, a peering request on the wire rig, the header of a
// first-contact ping, a gossip hop record.
// Oracle: reference predicate written with the hash implementations directly.
// Predicate false => error, no panic, no session and no stored record for that
// address. Predicate true with a well-formed Ed25519 key => accepted at every
// entry point, stored form reloads to an equal identity.
// Generator clause: every generated identity satisfies the predicate, lies in
// a requested prefix, in no ignored prefix, not in the internal range, and
// reloads from its stored form.

import (
	"bytes"
	"context"
	"crypto/ed25519"
	"crypto/sha256"
	"crypto/sha512"
	"encoding/binary"
	"encoding/hex"
	"fmt"
	"hash"
	"net/netip"
	"strings"
	"testing"
	"time"

	"github.com/fxamacker/cbor/v2"
	"github.com/zeebo/blake3"
	"golang.org/x/crypto/blake2b"
	"golang.org/x/crypto/blake2s"
	"golang.org/x/crypto/sha3"

	"github.com/mycoria/crop"
	"github.com/mycoria/mycoria/frame"
	"github.com/mycoria/mycoria/m"
	"github.com/mycoria/mycoria/mgr"
	"github.com/mycoria/mycoria/peering"
	"github.com/mycoria/mycoria/router"

	"verif/core"
	"verif/ids"
	"verif/vnet"
	"verif/wire"
)

var c01Opts = core.Opts{ID: "C01", Quick: 6000, Thorough: 300000}

var c01Hashes = map[string]func() hash.Hash{
	"SHA2_224": sha256.New224, "SHA2_256": sha256.New, "SHA2_384": sha512.New384, "SHA2_512": sha512.New,
	"SHA2_512_224": sha512.New512_224, "SHA2_512_256": sha512.New512_256,
	"SHA3_224": sha3.New224, "SHA3_256": sha3.New256, "SHA3_384": sha3.New384, "SHA3_512": sha3.New512,
	"BLAKE2s_256": func() hash.Hash { h, _ := blake2s.New256(nil); return h },
	"BLAKE2b_256": func() hash.Hash { h, _ := blake2b.New256(nil); return h },
	"BLAKE2b_384": func() hash.Hash { h, _ := blake2b.New384(nil); return h },
	"BLAKE2b_512": func() hash.Hash { h, _ := blake2b.New512(nil); return h },
	"BLAKE3":      func() hash.Hash { return blake3.New() },
}

var c01HashNames = []string{"BLAKE3", "SHA2_256", "SHA2_512", "SHA3_256", "SHA3_512", "BLAKE2b_256", "BLAKE2b_512", "BLAKE2s_256", "SHA2_224", "SHA2_384", "SHA2_512_224", "SHA2_512_256", "SHA3_224", "SHA3_384", "BLAKE2b_384"}

type c01Identity struct {
	ip      netip.Addr
	hash    string
	keyType string
	pub     []byte
	priv    []byte
	easing  uint64
}

// c01Digest16 computes the first 16 digest bytes of the encoded key material
// (nil if the material cannot be encoded or the hash is unknown).
func c01Digest16(id c01Identity) []byte {
	mk, ok := c01Hashes[id.hash]
	if !ok || len(id.keyType) > 255 || len(id.pub) > 65535 {
		return nil
	}
	h := mk()
	h.Write([]byte{1, byte(len(id.keyType))})
	var l [2]byte
	binary.BigEndian.PutUint16(l[:], uint16(len(id.pub)))
	h.Write(l[:])
	h.Write([]byte(id.keyType))
	h.Write(id.pub)
	if id.easing > 0 {
		var e [8]byte
		binary.BigEndian.PutUint64(e[:], id.easing)
		h.Write(e[:])
	}
	sum := h.Sum(nil)
	if len(sum) < 16 {
		return nil
	}
	return sum[:16]
}

// c01Predicate: the statement's acceptance condition.
func c01Predicate(id c01Identity) bool {
	if !id.ip.IsValid() || !id.ip.Is6() || id.ip.As16()[0] != 0xfd {
		return false
	}
	if id.hash == "" || id.keyType == "" || len(id.pub) == 0 {
		return false
	}
	d := c01Digest16(id)
	if d == nil {
		return false
	}
	a := id.ip.As16()
	return bytes.Equal(d, a[:])
}

func (id c01Identity) wellFormedEd25519() bool {
	return id.keyType == "Ed25519" && len(id.pub) == ed25519.PublicKeySize
}

func (id c01Identity) public() m.PublicAddress {
	return m.PublicAddress{IP: id.ip, Hash: crop.Hash(id.hash), Type: crop.KeyPairType(id.keyType), PublicKey: ed25519.PublicKey(id.pub), Easing: id.easing}
}

func (id c01Identity) String() string {
	return fmt.Sprintf("{ip=%s hash=%q type=%q key=%d bytes easing=%d}", id.ip, id.hash, id.keyType, len(id.pub), id.easing)
}

// c01Rederive finds an easing value under which the identity's digest starts
// with 0xfd (and is not in the internal range) and sets the address to it.
func c01Rederive(id c01Identity, start uint64) (c01Identity, bool) {
	for e := start; e < start+6000; e++ {
		id.easing = e
		d := c01Digest16(id)
		if d == nil {
			return id, false
		}
		if d[0] == 0xfd {
			ip := netip.AddrFrom16([16]byte(d))
			if !m.InternalPrefix.Contains(ip) {
				id.ip = ip
				return id, true
			}
		}
	}
	return id, false
}

func c01FromPool(p *ids.Identity) c01Identity {
	return c01Identity{ip: p.Addr.IP, hash: string(p.Addr.Hash), keyType: string(p.Addr.Type), pub: append([]byte(nil), p.Addr.PublicKey...), priv: append([]byte(nil), p.Addr.PrivateKey...), easing: p.Addr.Easing}
}

// c01GenValid draws a valid identity: pool identity, or a variant under
// another hash algorithm / easing.
func c01GenValid(c *core.Case) c01Identity {
	p := ids.Get(c.Pick("base.id", ids.Len()))
	id := c01FromPool(p)
	if c.Chance("variant", 1, 2) {
		v := id
		v.hash = c01HashNames[c.Pick("variant.hash", len(c01HashNames))]
		if nv, ok := c01Rederive(v, uint64(c.Int("variant.easing.start", 0, 50000))); ok {
			return nv
		}
	}
	return id
}

// c01Corrupt applies one corruption; returns the corrupted identity and a name.
func c01Corrupt(c *core.Case, id c01Identity) (c01Identity, string) {
	x := id
	x.pub = append([]byte(nil), id.pub...)
	switch c.Pick("corrupt", 14) {
	case 13:
		// Address really is the digest (under some easing), but lies outside fd00::/8.
		for e := uint64(c.Int("outside.easing", 1, 5000)); ; e++ {
			x.easing = e
			d := c01Digest16(x)
			if d == nil {
				break
			}
			if d[0] != 0xfd {
				x.ip = netip.AddrFrom16([16]byte(d))
				return x, "digest-consistent-outside-fd00/8"
			}
		}
		return x, "easing-changed"
	case 0:
		a := x.ip.As16()
		i := c.Uniform("addr.bit", 8, 127)
		a[i/8] ^= 0x80 >> (i % 8)
		x.ip = netip.AddrFrom16(a)
		return x, "address-bit-flip"
	case 1:
		a := x.ip.As16()
		a[0] = byte(core.OneOf(c, "addr.first", 0xfc, 0xfe, 0x20, 0x00, 0xff))
		x.ip = netip.AddrFrom16(a)
		return x, "address-outside-fd00/8"
	case 2:
		for {
			h := c01HashNames[c.Pick("hash.other", len(c01HashNames))]
			if h != x.hash {
				x.hash = h
				break
			}
		}
		return x, "hash-other-valid"
	case 3:
		x.hash = core.OneOf(c, "hash.unknown", "SHA9", "blake3", "BLAKE3 ", "MD5", "BLAKE4", strings.Repeat("B", 300))
		return x, "hash-unknown"
	case 4:
		x.hash = ""
		return x, "hash-empty"
	case 5:
		x.keyType = core.OneOf(c, "type.other", "ed25519", "Ed448", "X", "Ed25519 ")
		return x, "keytype-other"
	case 6:
		x.keyType = ""
		return x, "keytype-empty"
	case 7:
		x.keyType = strings.Repeat("K", core.OneOf(c, "type.long", 255, 256, 257, 1000))
		return x, "keytype-long"
	case 8:
		i := c.Uniform("key.bit", 0, len(x.pub)*8-1)
		x.pub[i/8] ^= 0x80 >> (i % 8)
		return x, "key-bit-flip"
	case 9:
		x.pub = x.pub[:c.Int("key.trunc", 0, len(x.pub)-1)]
		return x, "key-truncated"
	case 10:
		x.pub = append(x.pub, c.Bytes("key.ext", c.Int("key.extn", 1, 32))...)
		return x, "key-extended"
	case 11:
		if id.easing > 0 && c.Bool("easing.flip") {
			// one bit of the 64-bit easing value, also in its upper bytes
			x.easing = id.easing ^ (1 << uint(c.Uniform("easing.bit", 0, 63)))
			if x.easing == 0 {
				x.easing = id.easing + 1
			}
			return x, "easing-bit-flip"
		}
		x.easing = id.easing + uint64(c.Int("easing.delta", 1, 1000))
		return x, "easing-changed"
	default:
		if id.easing > 0 {
			x.easing = 0
			return x, "easing-removed"
		}
		x.easing = 1
		return x, "easing-added"
	}
}

// c01Odd builds a digest-consistent identity with an odd key size or key type.
func c01Odd(c *core.Case, id c01Identity) (c01Identity, string, bool) {
	x := id
	name := ""
	switch c.Pick("odd", 4) {
	case 0:
		x.pub, name = append([]byte(nil), id.pub[:31]...), "consistent-31-byte-key"
	case 1:
		x.pub, name = append(append([]byte(nil), id.pub...), 7), "consistent-33-byte-key"
	case 2:
		x.keyType, name = "Ed448", "consistent-unknown-keytype"
	default:
		x.keyType, name = strings.Repeat("T", 255), "consistent-255-byte-keytype"
	}
	nx, ok := c01Rederive(x, uint64(c.Int("odd.easing.start", 1, 50000)))
	return nx, name, ok
}

func c01Recover(fn func()) (panicked any) {
	defer func() { panicked = recover() }()
	fn()
	return nil
}

func TestC01Pure(t *testing.T) {
	core.Run(t, c01Opts, func(c *core.Case) {
		valid := c01GenValid(c)
		if !c01Predicate(valid) {
			c.Fatalf("internal: generated 'valid' identity fails the reference predicate: %s", valid)
		}
		id, what := valid, "valid"
		switch c.Weighted("case", 3, 8, 2) {
		case 1:
			id, what = c01Corrupt(c, valid)
		case 2:
			if o, name, ok := c01Odd(c, valid); ok {
				id, what = o, name
			}
		}
		pred := c01Predicate(id)
		mustAccept := pred && id.wellFormedEd25519()
		c.Note("%s: %s predicate=%v", what, id, pred)

		// Entry: VerifyAddress.
		pa := id.public()
		var verr error
		if p := c01Recover(func() { verr = pa.VerifyAddress() }); p != nil {
			c.Fatalf("VerifyAddress panicked on %s (%s): %v", what, id, p)
		}
		if !pred && verr == nil {
			c.Fatalf("VerifyAddress accepted %s although address = digest(key material) inside fd00::/8 does not hold: %s", what, id)
		}
		if mustAccept && verr != nil {
			c.Fatalf("VerifyAddress rejected a valid identity (%s): %v", id, verr)
		}

		// Entry: stored form (configuration).
		stored := m.AddressStorage{IP: id.ip.String(), Hash: crop.Hash(id.hash), Type: crop.KeyPairType(id.keyType),
			PublicKey: hex.EncodeToString(id.pub), PrivateKey: hex.EncodeToString(id.priv), Easing: id.easing}
		storedOK := true
		storedWhat := ""
		switch c.Weighted("stored.corrupt", 12, 1, 1, 1, 1, 1) {
		case 1:
			stored.PublicKey, storedOK, storedWhat = stored.PublicKey+"zz", false, "non-hex public key"
		case 2:
			if len(stored.PublicKey) > 0 {
				stored.PublicKey, storedOK, storedWhat = stored.PublicKey[:len(stored.PublicKey)-1], false, "odd-length hex public key"
			}
		case 3:
			stored.PrivateKey, storedOK, storedWhat = stored.PrivateKey[:c.Int("priv.trunc", 0, 63)*2], false, "short private key"
		case 4:
			other := ids.Get(c.Pick("priv.other", ids.Len()))
			if !bytes.Equal(other.Addr.PrivateKey, id.priv) {
				stored.PrivateKey, storedOK, storedWhat = hex.EncodeToString(other.Addr.PrivateKey), false, "private key of another identity"
			}
		case 5:
			stored.IP, storedOK, storedWhat = core.OneOf(c, "ip.text", "", "fd00", "not-an-ip", "10.0.0.1"), false, "unparsable address"
		}
		var loaded *m.Address
		var lerr error
		if p := c01Recover(func() { loaded, lerr = m.AddressFromStorage(stored) }); p != nil {
			c.Fatalf("AddressFromStorage panicked on %s %s (%s): %v", what, storedWhat, id, p)
		}
		if (!pred || !storedOK) && lerr == nil {
			c.Fatalf("AddressFromStorage accepted %s %s: %s", what, storedWhat, id)
		}
		if mustAccept && storedOK {
			if lerr != nil {
				c.Fatalf("AddressFromStorage rejected a valid stored identity (%s): %v", id, lerr)
			}
			again, err := m.AddressFromStorage(loaded.Store())
			if err != nil || again.IP != loaded.IP || again.Hash != loaded.Hash || again.Type != loaded.Type || again.Easing != loaded.Easing ||
				!bytes.Equal(again.PublicKey, loaded.PublicKey) || !bytes.Equal(again.PrivateKey, loaded.PrivateKey) ||
				loaded.IP != id.ip || !bytes.Equal(loaded.PublicKey, id.pub) || loaded.Easing != id.easing {
				c.Fatalf("stored form does not reload to the same identity: %v", err)
			}
		}

		// Entry: key pair (only expressible for 32/64 byte keys).
		if len(id.pub) == ed25519.PublicKeySize && len(id.priv) == ed25519.PrivateKeySize && id.keyType == "Ed25519" {
			kp := crop.MakeEd25519KeyPair(ed25519.PrivateKey(id.priv), ed25519.PublicKey(id.pub))
			var kerr, perr error
			if p := c01Recover(func() {
				_, kerr = m.AddressFromKeyPair(kp, id.ip, crop.Hash(id.hash), id.easing)
				_, perr = m.PublicAddressFromKeyPair(kp, id.ip, crop.Hash(id.hash), id.easing)
			}); p != nil {
				c.Fatalf("AddressFromKeyPair panicked on %s (%s): %v", what, id, p)
			}
			if !pred && (kerr == nil || perr == nil) {
				c.Fatalf("AddressFromKeyPair accepted %s: %s", what, id)
			}
			if mustAccept && (kerr != nil || perr != nil) {
				c.Fatalf("AddressFromKeyPair rejected a valid identity (%s): %v / %v", id, kerr, perr)
			}
		}
		c.Eval(fmt.Sprintf("pure|%s|%s|%v", what, id.hash, pred), what != "valid" && !pred, func() any {
			return map[string]any{"entry": "pure", "case": what, "identity": id.String(), "predicate": pred}
		})
		c.Class("pure/" + what)
	})
}

// ---- network entry points ----

func c01Sign(fr *frame.FrameV1, priv []byte, ts time.Time) {
	ttl := fr.TTL()
	fr.SetTTL(0)
	fr.SetSequenceTime(ts)
	if len(priv) == ed25519.PrivateKeySize {
		_ = fr.SignRaw(ed25519.PrivateKey(priv))
	}
	fr.SetTTL(ttl)
}

func TestC01Network(t *testing.T) {
	core.Run(t, core.Opts{ID: "C01", Quick: 3000, Thorough: 100000}, func(c *core.Case) {
		valid := c01GenValid(c)
		id, what := valid, "valid"
		switch c.Weighted("case", 3, 8, 2) {
		case 1:
			id, what = c01Corrupt(c, valid)
		case 2:
			if o, name, ok := c01Odd(c, valid); ok {
				id, what = o, name
			}
		}
		if c.Chance("case.foreign-keypair", 1, 8) {
			// The address of the valid identity under the complete key pair of
			// another router (what a forger who owns a key can present and sign).
			o := ids.Group("na")[4]
			id = valid
			id.pub, id.priv = append([]byte(nil), o.Addr.PublicKey...), append([]byte(nil), o.Addr.PrivateKey...)
			what = "key-pair-of-another-router"
		}
		pred := c01Predicate(id)
		mustAccept := pred && id.wellFormedEd25519()
		if !id.ip.IsValid() {
			return
		}
		// Victim V with one honest peer P; the identity under test must differ from both.
		pool := ids.Group("na")
		vn := vnet.New()
		V, _ := vn.AddNode("V", pool[0], vnet.NodeOpts{})
		P, _ := vn.AddNode("P", pool[1], vnet.NodeOpts{})
		O, _ := vn.AddNode("O", pool[2], vnet.NodeOpts{})
		lV, _, _ := vn.Connect(V, P, vnet.LinkOpts{LabelA: 9, LabelB: 8, LatA: 2, LatB: 2})
		_ = V.St.AddRouter(&O.ID.Addr.PublicAddress)
		if id.ip == V.IP() || id.ip == P.IP() || id.ip == O.IP() {
			return
		}
		entry := core.OneOf(c, "entry", "ping-header", "hop-record", "peering-request")
		// A peering request is also presented by routers V already knows (every
		// reconnect): V may hold the genuine record of this address before the
		// identity under test arrives. (Pings and hop records of known routers do
		// not carry an identity that is looked at: first contact only.)
		knownFirst := false
		// The same goes for a hop record that names a known router under another
		// key and is signed with that key (with the genuine key the record is the
		// router's own word, whatever else it says about the identity).
		if (entry == "peering-request" || entry == "hop-record" && what == "key-pair-of-another-router") && id.ip == valid.ip && c.Bool("known-first") {
			pa := valid.public()
			if err := V.St.AddRouter(&pa); err != nil {
				c.Fatalf("add genuine router: %v", err)
			}
			knownFirst = true
			c.Class(entry + "-from-known-router")
		}
		c.Note("%s via %s: %s predicate=%v known-first=%v", what, entry, id, pred, knownFirst)
		alerts := mgr.NewAlertMgr(V.Peer.Manager())
		accepted := false
		b := frame.NewFrameBuilder()
		b.SetFrameMargins(peering.FrameOffset, peering.FrameOverhead)
		ts := time.Now().Add(-time.Millisecond)
		switch entry {
		case "ping-header":
			hd := pingHeaderCBOR(42, core.OneOf(c, "ping.type", "pong", "hello", "error", "disconnect"), 0, false, id.hash, id.keyType, id.pub, id.easing)
			if len(hd) > 255 {
				c.Class("header-too-big-for-a-ping")
				return
			}
			body, _ := cbor.Marshal(map[string]string{"msg": "ping"})
			msg := append(append([]byte{1, byte(len(hd))}, hd...), body...)
			fr, err := b.NewFrameV1(id.ip, V.IP(), frame.RouterPing, nil, msg, nil)
			if err != nil {
				return
			}
			c01Sign(fr, id.priv, ts)
			d, _ := fr.FrameDataWithMargins(0, 0)
			data := append([]byte(nil), d...)
			fr.ReturnToPool()
			var res vnet.Result
			if c.Chance("ping.two-copies-at-once", 1, 3) {
				// The ping reaches the router twice at the same moment (two links, two
				// workers), one worker held at a generated point: the verdict about
				// the identity must be the same, and nothing may crash.
				if at := core.OneOf(c, "ping.point", "", "storage.GetRouter", "storage.SaveRouter", "instance.Identity", "instance.State"); at == "" {
					V.Gate.Arm(c.Int("ping.any-call", 0, 10))
				} else {
					V.Gate.ArmAt(at, c.Int("ping.call", 0, 3))
				}
				var ok bool
				res, _, ok = vn.InjectPar(V, []*vnet.VLink{lV, lV}, [][]byte{data, append([]byte(nil), data...)})
				if !ok {
					c.Class("inconclusive-workers-did-not-finish")
					return
				}
				if res.Panicked {
					c.Fatalf("first-contact ping with %s, two copies handled at once (held at %q: %s), panicked the router: %v", what, V.Gate.Point, V.Gate.Stack, vn.Panics)
				}
				// one of the two copies is a duplicate: accepted if any copy was processed
				res.RouterErrs = res.RouterErrs[:max(0, len(res.RouterErrs)-1)]
				c.Class("ping-header-two-copies-at-once")
			} else {
				res = vn.Inject(V, lV, data)
			}
			if res.Panicked {
				c.Fatalf("first-contact ping with %s panicked the router: %v", what, vn.Panics)
			}
			accepted = len(res.RouterErrs) == 0 && res.ParseErr == nil && res.Escalated > 0
			if !accepted && mustAccept {
				// An error after the identity was accepted (e.g. unroutable reply) is fine; what counts is the session.
				accepted = V.St.GetSession(id.ip) != nil
			}
		case "hop-record":
			// Announcement of O (honest, known) forwarded by X' (under test) and then by P (honest peer).
			info, _ := cbor.Marshal(map[string]any{"i": map[string]any{"v": "v1"}, "b": 5, "e": time.Now().Add(10 * time.Minute)})
			hd := pingHeaderFor(O.ID, 43, "announce", 0, false)
			msg := append(append([]byte{1, byte(len(hd))}, hd...), info...)
			fr, err := b.NewFrameV1(O.IP(), m.RouterAddress, frame.RouterHopPingDeprecated, nil, msg, nil)
			if err != nil {
				return
			}
			c01Sign(fr, O.ID.Addr.PrivateKey, ts)
			d, _ := fr.FrameDataWithMargins(0, 0)
			data := append([]byte(nil), d...)
			fr.ReturnToPool()
			ctx := c08Context(data)
			// Optionally a further honest record below the one under test (chain
			// P > X' > Q), signed by a router V has not met.
			var below []byte
			if c.Bool("hop.third-layer") {
				q := pool[3]
				third := router.AnnouncePingAttachment{Router: q.Addr.PublicAddress, Delay: 2, ForwardLabel: 21, ReturnLabel: 22}
				traw, _ := cbor.Marshal(third)
				tsig, _ := q.Addr.SignWithContext(traw, ctx)
				below = append(traw, tsig...)
			}
			inner := router.AnnouncePingAttachment{Router: id.public(), Delay: 3, ForwardLabel: 11, ReturnLabel: 12, NextAttachment: below}
			raw, err := cbor.Marshal(inner)
			if err != nil {
				return
			}
			sig := make([]byte, 64)
			if len(id.priv) == ed25519.PrivateKeySize {
				if s, err := ed25519.PrivateKey(id.priv).Sign(nil, raw, &ed25519.Options{Context: string(ctx)}); err == nil {
					sig = s
				}
			}
			innerBytes := append(raw, sig...)
			outer := router.AnnouncePingAttachment{Router: P.ID.Addr.PublicAddress, Delay: 4, ForwardLabel: 13, ReturnLabel: 14, NextAttachment: innerBytes}
			oraw, _ := cbor.Marshal(outer)
			osig, _ := P.ID.Addr.SignWithContext(oraw, ctx)
			data = append(data, append(oraw, osig...)...)
			before := len(V.Rtr.Table().VerifEntries())
			res := vn.Inject(V, lV, data)
			if res.Panicked {
				c.Fatalf("announcement with %s in a hop record panicked the router: %v", what, vn.Panics)
			}
			accepted = len(V.Rtr.Table().VerifEntries()) > before
		default:
			type req struct {
				RouterVersion string          `cbor:"v,omitempty"`
				Universe      string          `cbor:"u,omitempty"`
				Address       m.PublicAddress `cbor:"a,omitempty"`
				Challenge     []byte          `cbor:"c,omitempty"`
				LinkVersion   int             `cbor:"lv,omitempty"`
				TunMTU        int             `cbor:"tmtu,omitempty"`
			}
			body, err := cbor.Marshal(&req{RouterVersion: "v0", Address: id.public(), Challenge: c.Bytes("challenge", 32), LinkVersion: 1, TunMTU: 1500})
			if err != nil || len(body) > 9000 {
				return
			}
			fr, err := b.NewFrameV1(id.ip, m.RouterAddress, frame.RouterPing, nil, body, nil)
			if err != nil {
				return
			}
			fr.SetTTL(1)
			c01Sign(fr, id.priv, ts)
			d, _ := fr.FrameDataWithMargins(2, 0)
			data := append([]byte(nil), d...)
			data[0], data[1] = byte(len(data)>>8), byte(len(data))
			fr.ReturnToPool()
			e := wire.DialOne(V, c.Bool("v.dials"))
			if err := e.WaitParked(1); err != nil {
				e.Close()
				_ = e.WaitDone()
				c.Class("inconclusive-time-budget")
				return
			}
			_ = e.Take(0)
			prev := e.Parked()
			_ = e.Write(data)
			if err := e.WaitReaction(prev); err != nil {
				e.Close()
				_ = e.WaitDone()
				c.Class("inconclusive-time-budget")
				return
			}
			e.Close()
			_ = e.WaitDone()
			// A request that was accepted moves V to the next step, where it then
			// hits the EOF; a refused one fails in step 1.
			accepted = e.Err != nil && strings.Contains(e.Err.Error(), "read peering msg 2")
			if e.Panicked() {
				c.Fatalf("peering request with %s panicked the link setup: %v", what, e.Err)
			}
			if e.Link != nil {
				e.Link.Close(nil)
			}
			if l := V.Peer.GetLink(id.ip); l != nil {
				c.Fatalf("a link is registered for %s after an aborted handshake", id.ip)
			}
		}
		if up := alerts.Export(); len(up.Alerts) > 0 {
			c.Fatalf("worker panic: %s", up.Alerts[0].Message)
		}
		if !pred {
			if accepted {
				c.Fatalf("%s (%s) was accepted at the %s entry point", what, id, entry)
			}
			if s := V.St.GetSession(id.ip); s != nil && !knownFirst {
				c.Fatalf("a session for %s exists after %s (%s) was presented at the %s entry point", id.ip, what, id, entry)
			}
			if sr, err := V.Store.GetRouter(id.ip); err == nil && sr != nil && !knownFirst {
				c.Fatalf("a stored record for %s exists after %s was presented at the %s entry point", id.ip, what, entry)
			}
			if knownFirst {
				if s := V.St.GetSession(id.ip); s == nil || !bytes.Equal(s.Address().PublicKey, valid.pub) || string(s.Address().Hash) != valid.hash || s.Address().Easing != valid.easing {
					c.Fatalf("the genuine record of %s was replaced after %s was presented at the %s entry point", id.ip, what, entry)
				}
			}
		}
		if mustAccept && !accepted {
			c.Fatalf("valid identity %s (%s) was not accepted at the %s entry point", id, what, entry)
		}
		// Whatever record and session now exist for the address bind it to exactly
		// the identity that was presented (or, for a known router, the genuine one).
		if s := V.St.GetSession(id.ip); s != nil && pred {
			a := s.Address()
			if a.IP != id.ip || !bytes.Equal(a.PublicKey, valid.pub) && !bytes.Equal(a.PublicKey, id.pub) {
				c.Fatalf("after %s was presented at the %s entry point the session for %s holds address %s with key %x", what, entry, id.ip, a.IP, []byte(a.PublicKey))
			}
		}
		if sr, err := V.Store.GetRouter(id.ip); err == nil && sr != nil && sr.Address != nil && pred {
			if sr.Address.IP != id.ip || !bytes.Equal(sr.Address.PublicKey, valid.pub) && !bytes.Equal(sr.Address.PublicKey, id.pub) {
				c.Fatalf("after %s was presented at the %s entry point the stored record for %s holds address %s with key %x", what, entry, id.ip, sr.Address.IP, []byte(sr.Address.PublicKey))
			}
		}
		c.Eval(fmt.Sprintf("net|%s|%s|%s|%v", entry, what, id.hash, pred), what != "valid" && !pred, func() any {
			return map[string]any{"entry": entry, "case": what, "identity": id.String(), "predicate": pred, "accepted": accepted}
		})
		c.Class(entry + "/" + what)
	})
}

// ---- generator clause ----

func TestC01Generator(t *testing.T) {
	core.Run(t, core.Opts{ID: "C01", Quick: 150, Thorough: 3000}, func(c *core.Case) {
		var accept, ignore []netip.Prefix
		mk := func(label string, minBits, maxBits int) netip.Prefix {
			bits := c.Int(label+".bits", minBits, maxBits)
			a := [16]byte{0xfd, byte(c.Uniform(label+".b1", 0, 255)), byte(c.Uniform(label+".b2", 0, 255))}
			p, _ := netip.AddrFrom16(a).Prefix(bits)
			return p
		}
		for i, n := 0, 1+c.Weighted("accept.n", 2, 3, 3); i < n; i++ {
			accept = append(accept, mk(fmt.Sprintf("accept%d", i), 9, 13))
		}
		for i, n := 0, c.Int("ignore.n", 0, 2); i < n; i++ {
			p := mk(fmt.Sprintf("ignore%d", i), 10, 16)
			switch c.Weighted("ignore.relation", 3, 3, 2, 2, 1) {
			case 1:
				// Inside an acceptable prefix, at its base address.
				base := accept[c.Pick("ignore.of", len(accept))]
				p, _ = base.Addr().Prefix(min(base.Bits()+c.Int("ignore.deeper", 1, 3), 20))
			case 2:
				// Inside an acceptable prefix, somewhere else than at its base address.
				base := accept[c.Pick("ignore.of", len(accept))]
				deeper := min(base.Bits()+c.Int("ignore.deeper", 1, 3), 20)
				a := base.Addr().As16()
				for bit := base.Bits(); bit < deeper; bit++ {
					if c.Bool("ignore.subblock.bit") {
						a[bit/8] |= 0x80 >> (bit % 8)
					}
				}
				p, _ = netip.AddrFrom16(a).Prefix(deeper)
			case 3:
				// Broader than an acceptable prefix and covering it completely (the
				// base address of the broader range mostly lies outside the covered one).
				base := accept[c.Pick("ignore.of", len(accept))]
				p, _ = base.Addr().Prefix(max(base.Bits()-c.Int("ignore.broader", 1, 3), 8))
				c.Class("ignored-range-covers-an-acceptable-prefix")
			case 4:
				p = accept[c.Pick("ignore.of", len(accept))] // exactly an acceptable prefix
			}
			ignore = append(ignore, p)
		}
		maxEasing := uint64(core.OneOf(c, "maxEasing", 0, 1, 20, 2000))
		ignoreWas := append([]netip.Prefix(nil), ignore...)
		var addr *m.Address
		var tries int
		var err error
		privacy := c.Chance("privacy", 1, 6)
		ctx, cancel := context.WithTimeout(context.Background(), 60*time.Second)
		defer cancel()
		if p := c01Recover(func() {
			if privacy {
				addr, tries, err = m.GeneratePrivacyAddress(ctx)
			} else {
				addr, tries, err = m.GenerateRoutableAddress(ctx, accept, ignore, maxEasing)
			}
		}); p != nil {
			c.Fatalf("address generation panicked: %v", p)
		}
		c.Note("accept=%v ignore=%v maxEasing=%d privacy=%v -> %v tries=%d", accept, ignore, maxEasing, privacy, err, tries)
		if err != nil {
			// Allowed: the whole acceptable space may be ignored, or max tries reached.
			c.Class("generator-gave-up")
			c.Eval("gen-error", false, nil)
			return
		}
		id := c01Identity{ip: addr.IP, hash: string(addr.Hash), keyType: string(addr.Type), pub: addr.PublicKey, priv: addr.PrivateKey, easing: addr.Easing}
		if !c01Predicate(id) || !id.wellFormedEd25519() {
			c.Fatalf("generated identity fails the address check: %s", id)
		}
		if privacy {
			accept = []netip.Prefix{m.PrivacyAddressPrefix}
			ignore = nil
		}
		in := false
		for _, p := range accept {
			if p.Contains(addr.IP) {
				in = true
			}
		}
		if !in {
			c.Fatalf("generated address %s lies in none of the requested prefixes %v", addr.IP, accept)
		}
		for _, p := range ignoreWas {
			if !privacy && p.Contains(addr.IP) {
				c.Fatalf("generated address %s lies in the ignored prefix %s", addr.IP, p)
			}
		}
		if m.InternalPrefix.Contains(addr.IP) {
			c.Fatalf("generated address %s lies in the internal range", addr.IP)
		}
		if tries < 1 {
			c.Fatalf("generator reports %d tries", tries)
		}
		if addr.Easing > maxEasing && !privacy {
			c.Fatalf("generated identity uses easing %d, maximum was %d", addr.Easing, maxEasing)
		}
		if err := addr.VerifyAddress(); err != nil {
			c.Fatalf("generated identity does not verify: %v", err)
		}
		re, err := m.AddressFromStorage(addr.Store())
		if err != nil || re.IP != addr.IP || !bytes.Equal(re.PublicKey, addr.PublicKey) || !bytes.Equal(re.PrivateKey, addr.PrivateKey) || re.Easing != addr.Easing || re.Hash != addr.Hash || re.Type != addr.Type {
			c.Fatalf("generated identity does not reload from its stored form: %v", err)
		}
		// A program that makes several identities passes the same lists again: a
		// second identity, wanted in the area around one of the ignored ranges
		// (preferably one that had nothing to do with the first request). The
		// verdict is taken against copies of the lists made before the first call.
		if !privacy && len(ignore) > 0 && c.Chance("second", 2, 3) {
			k := c.Pick("second.around", len(ignore))
			for i, ig := range ignoreWas {
				unrelated := true
				for _, ap := range accept {
					if ap.Overlaps(ig) {
						unrelated = false
					}
				}
				if unrelated && c.Chance("second.around-an-unrelated-one", 3, 4) {
					k = i
					break
				}
			}
			wide, _ := ignoreWas[k].Addr().Prefix(max(ignoreWas[k].Bits()-c.Int("second.wider", 1, 2), 8))
			accept2 := []netip.Prefix{wide}
			var addr2 *m.Address
			var err2 error
			ctx2, cancel2 := context.WithTimeout(context.Background(), 60*time.Second)
			defer cancel2()
			if p := c01Recover(func() { addr2, _, err2 = m.GenerateRoutableAddress(ctx2, accept2, ignore, maxEasing) }); p != nil {
				c.Fatalf("second address generation panicked: %v", p)
			}
			if err2 == nil {
				if !wide.Contains(addr2.IP) {
					c.Fatalf("second generated address %s lies outside the requested prefix %s", addr2.IP, wide)
				}
				for _, ig := range ignoreWas {
					if ig.Contains(addr2.IP) {
						c.Fatalf("second identity made with the same lists: address %s lies in the ignored prefix %s (lists given: accept %v, ignore %v; first request was for %v)", addr2.IP, ig, accept2, ignoreWas, accept)
					}
				}
				if err := addr2.VerifyAddress(); err != nil {
					c.Fatalf("second generated identity does not verify: %v", err)
				}
				c.Class("generator/second-identity-from-the-same-lists")
			}
		}
		c.Eval(fmt.Sprintf("gen|%v|%v|%d|%v", accept, ignoreWas, maxEasing, privacy), len(ignore) > 0 || maxEasing > 0, func() any {
			return map[string]any{"entry": "generator", "accept": fmt.Sprint(accept), "ignore": fmt.Sprint(ignoreWas), "max_easing": maxEasing, "address": addr.IP.String(), "easing": addr.Easing, "tries": tries}
		})
	})
}
