package props

// C02 — Sealed frames: exact round trip; any change to a protected byte is rejected.
//
// Generator: message type over all 256 values (the 7 defined ones weighted),
// payload 1..10000 bytes with edges, switch block 0..255 bytes, appendix
// 0..10000, builder margins 0..100 on both sides, random payload with a
// 16-byte marker. Four parties with completed key exchanges A<->B, C<->B, A<->D.
// Oracle: round trip (Seal at A, re-parse a copy, Unseal at B gives the exact
// payload), wrong-session rejection, metamorphic tamper relation (all
// must-reject mutants first, then the untouched original is accepted on the
// same receiver session; must-accept mutants - TTL, flow flags, appendix - on
// freshly sealed frames), confidentiality (marker not on the wire).

import (
	"bytes"
	"errors"
	"fmt"
	"testing"
	"time"

	"github.com/mycoria/mycoria/frame"
	"github.com/mycoria/mycoria/state"

	"verif/core"
	"verif/ids"
	"verif/vnet"
)

var c02Opts = core.Opts{ID: "C02", Quick: 3000, Thorough: 120000}

var c02Defined = []frame.MessageType{
	frame.RouterHopPingDeprecated, frame.RouterPing, frame.RouterCtrl, frame.RouterHopPing,
	frame.NetworkTraffic, frame.SessionCtrl, frame.SessionData,
}

type c02Parties struct {
	a, b, c, d         *vnet.Party
	sAB, sBA, sBC, sDA *state.Session
	sCB, sAD           *state.Session
}

func c02Setup(c *core.Case) *c02Parties {
	base := c.Pick("ids", 10) * 4
	p := &c02Parties{
		a: vnet.NewParty(ids.Get(base)), b: vnet.NewParty(ids.Get(base + 1)),
		c: vnet.NewParty(ids.Get(base + 2)), d: vnet.NewParty(ids.Get(base + 3)),
	}
	p.sAB, p.sBA = p.a.SessionWith(p.b), p.b.SessionWith(p.a)
	sCB := p.c.SessionWith(p.b)
	p.sBC = p.b.SessionWith(p.c)
	sAD := p.a.SessionWith(p.d)
	p.sDA = p.d.SessionWith(p.a)
	p.sCB, p.sAD = sCB, sAD
	// a's session for d is a separate session object from a's session for b.
	for _, pair := range [][2]*state.Session{{p.sAB, p.sBA}, {sCB, p.sBC}, {sAD, p.sDA}} {
		if err := vnet.KeyExchange(pair[0], pair[1]); err != nil {
			c.Fatalf("key exchange: %v", err)
		}
	}
	// One setup in six: every pair is long-lived - its regular numbering has
	// wrapped and its keys have rolled over once (each pair to its own next key).
	// Another one in six: every pair is about to wrap - its regular numbering
	// stands inside the last 256 numbers, nothing has rolled over yet.
	rolled := c.Chance("rolled-over", 1, 6)
	nearWrap := !rolled && c.Chance("near-wrap", 1, 5)
	if rolled || nearWrap {
		b := frame.NewFrameBuilder()
		start := uint32(0xFFFF_FFFF - 2)
		wraps := 1
		if rolled && c.Bool("rolled-over.twice") {
			wraps = 2
		}
		if nearWrap {
			start = 0xFFFF_FF00 + uint32(c.Int("near-wrap.at", 0, 60))
		}
		for _, pr := range []struct {
			from, to *vnet.Party
			s, r     *state.Session
		}{{p.a, p.b, p.sAB, p.sBA}, {p.c, p.b, sCB, p.sBC}, {p.a, p.d, sAD, p.sDA}} {
			h := state.EncryptionSessionTestHelper{EncryptionSession: pr.s.Encryption()}
			h.ReglSetOut(start)
			for k := 0; k < 5*wraps; k++ {
				if k == 5 {
					// ... and a second time (5 frames later in this model of a long life).
					h.ReglSetOut(start)
				}
				f, err := b.NewFrameV1(pr.from.ID.Addr.IP, pr.to.ID.Addr.IP, frame.NetworkTraffic, nil, []byte("long-lived session traffic"), nil)
				if err != nil {
					c.Fatalf("frame: %v", err)
				}
				if err := f.Seal(pr.s); err != nil {
					c.Fatalf("seal across the wrap: %v", err)
				}
				d, _ := f.FrameDataWithMargins(0, 0)
				d = append([]byte(nil), d...)
				f.ReturnToPool()
				if _, perr, uerr := c02Unseal(b, 0, 0, d, pr.r); perr != nil || uerr != nil {
					c.Fatalf("frame %d across the sequence wrap does not unseal: parse=%v unseal=%v", k, perr, uerr)
				}
			}
		}
		if rolled {
			c.Class(fmt.Sprintf("sessions-rolled-over-%d-times", wraps))
		} else {
			c.Class("sessions-about-to-wrap")
		}
	}
	return p
}

func c02Len(c *core.Case, label string, min, max int, edges ...int) int {
	if c.Chance(label+".edge", 1, 2) {
		e := edges[c.Pick(label+".e", len(edges))]
		if e < min {
			e = min
		}
		if e > max {
			e = max
		}
		return e
	}
	if c.Bool(label + ".small") {
		hi := 64
		if hi > max {
			hi = max
		}
		return c.Int(label+".n", min, hi)
	}
	return c.Uniform(label+".u", min, max)
}

type c02Spec struct {
	mt        frame.MessageType
	payload   []byte
	sw        []byte
	apx       []byte
	offS, ovS int // sender margins
	offR, ovR int // receiver margins
	marker    []byte
}

func c02Gen(c *core.Case, smallOnly bool) *c02Spec {
	sp := &c02Spec{}
	if c.Chance("type.defined", 5, 6) {
		sp.mt = c02Defined[c.Pick("type", len(c02Defined))]
	} else {
		sp.mt = frame.MessageType(c.Uniform("type.any", 0, 255))
	}
	maxPayload, maxApx := 10000, 10000
	if smallOnly {
		maxPayload, maxApx = 120, 60
	}
	pl := c02Len(c, "payload", 1, maxPayload, 1, 2, 15, 16, 17, 440, 455, 470, 520, 1480, 1500, 1520, 4990, 5100, 9500, 9600, 9999, 10000)
	sp.payload = c.Bytes("payload.bytes", pl)
	sp.marker = c.Bytes("marker", 16)
	if pl >= 16 {
		pos := c.Uniform("marker.pos", 0, pl-16)
		copy(sp.payload[pos:], sp.marker)
	} else {
		sp.marker = nil
	}
	sl := c02Len(c, "switch", 0, 255, 0, 0, 1, 2, 6, 127, 128, 254, 255)
	if smallOnly && sl > 12 {
		sl = sl % 13
	}
	sp.sw = c.Bytes("switch.bytes", sl)
	al := c02Len(c, "apx", 0, maxApx, 0, 0, 0, 1, 64, 65, 200, 600, 1600, 9999, 10000)
	sp.apx = c.Bytes("apx.bytes", al)
	sp.offS, sp.ovS = c02Len(c, "offS", 0, 100, 0, 12, 100), c02Len(c, "ovS", 0, 100, 0, 16, 100)
	sp.offR, sp.ovR = c02Len(c, "offR", 0, 100, 0, 12, 100), c02Len(c, "ovR", 0, 100, 0, 16, 100)
	return sp
}

func (sp *c02Spec) key() string {
	bucket := func(n int) string {
		switch {
		case n == 0:
			return "0"
		case n <= 17:
			return "tiny"
		case n <= 500:
			return "t1"
		case n <= 1500:
			return "t2"
		case n <= 5000:
			return "t3"
		case n <= 9500:
			return "t4"
		default:
			return "t5"
		}
	}
	return fmt.Sprintf("type=%d payload=%s sw=%d apx=%s margins=%d/%d", sp.mt, bucket(len(sp.payload)), len(sp.sw), bucket(len(sp.apx)), sp.offS/25, sp.offR/25)
}

// c02Seal builds and seals one frame at the sender and returns its wire bytes.
func c02Seal(sp *c02Spec, b *frame.Builder, p *c02Parties) ([]byte, error) {
	f, err := b.NewFrameV1(p.a.ID.Addr.IP, p.b.ID.Addr.IP, sp.mt, sp.sw, sp.payload, sp.apx)
	if err != nil {
		return nil, fmt.Errorf("new frame: %w", err)
	}
	defer f.ReturnToPool()
	if err := f.Seal(p.sAB); err != nil {
		return nil, err
	}
	data, err := f.FrameDataWithMargins(0, 0)
	if err != nil {
		return nil, err
	}
	return append([]byte(nil), data...), nil
}

// c02Unseal parses a copy of wire at the receiver and unseals it.
// Returns the message data seen after Unseal (copy), parse error, unseal error.
func c02Unseal(rb *frame.Builder, off, ov int, wire []byte, s *state.Session) (msg []byte, parseErr, unsealErr error) {
	ps := rb.GetPooledSlice(off + len(wire) + ov)
	if ps == nil {
		return nil, fmt.Errorf("no pooled slice for %d bytes", off+len(wire)+ov), nil
	}
	copy(ps[off:], wire)
	f, err := rb.ParseFrame(ps[off:off+len(wire)], ps, off)
	if err != nil {
		rb.ReturnPooledSlice(ps)
		return nil, err, nil
	}
	defer f.ReturnToPool()
	unsealErr = f.Unseal(s)
	msg = append([]byte(nil), f.MessageData()...)
	return msg, nil, unsealErr
}

// Layout regions of a v1 frame.
type c02Layout struct {
	swLenIdx, swStart, msgLenIdx, msgStart, authStart, apxStart, end int
}

func c02LayoutOf(sp *c02Spec) c02Layout {
	l := c02Layout{swLenIdx: 48, swStart: 49}
	l.msgLenIdx = l.swStart + len(sp.sw)
	l.msgStart = l.msgLenIdx + 2
	l.authStart = l.msgStart + len(sp.payload)
	auth := 64
	if sp.mt.IsEncrypted() {
		auth = 16
	}
	l.apxStart = l.authStart + auth
	l.end = l.apxStart + len(sp.apx)
	return l
}

func (l c02Layout) region(i int) string {
	switch {
	case i == 0:
		return "version"
	case i == 1:
		return "ttl"
	case i == 2:
		return "flow"
	case i == 3:
		return "recvrate"
	case i == 4:
		return "type"
	case i < 8:
		return "nonce"
	case i < 16:
		return "sequence"
	case i < 32:
		return "src"
	case i < 48:
		return "dst"
	case i == l.swLenIdx:
		return "swlen"
	case i < l.msgLenIdx:
		return "switchblock"
	case i < l.msgStart:
		return "msglen"
	case i < l.authStart:
		return "payload"
	case i < l.apxStart:
		return "auth"
	default:
		return "appendix"
	}
}

func c02MustAccept(region string) bool {
	return region == "ttl" || region == "flow" || region == "appendix"
}

// c02Positions selects the byte positions to tamper with.
func c02Positions(c *core.Case, sp *c02Spec, l c02Layout, signed bool) []int {
	seen := map[int]bool{}
	var pos []int
	add := func(i int) {
		if i >= 0 && i < l.end && !seen[i] {
			seen[i] = true
			pos = append(pos, i)
		}
	}
	full := l.end <= 400 && !signed
	if full {
		for i := 0; i < l.end; i++ {
			add(i)
		}
		return pos
	}
	for i := 0; i < 52 && i < l.end; i++ { // header, swlen, start of block
		add(i)
	}
	for _, edge := range []int{l.swStart, l.msgLenIdx, l.msgStart, l.authStart, l.apxStart, l.end} {
		for d := -4; d < 4; d++ {
			add(edge + d)
		}
	}
	extra := 96
	if signed {
		extra = 40
	}
	for k := 0; k < extra; k++ {
		add(c.Uniform("pos", 0, l.end-1))
	}
	return pos
}

func c02Check(c *core.Case, sp *c02Spec, bitsPerByte int) {
	p := c02Setup(c)
	sb := frame.NewFrameBuilder()
	sb.SetFrameMargins(sp.offS, sp.ovS)
	rb := frame.NewFrameBuilder()
	rb.SetFrameMargins(sp.offR, sp.ovR)
	class := sp.mt.Class()
	c.Note("spec: %s payload=%d sw=%d apx=%d", sp.key(), len(sp.payload), len(sp.sw), len(sp.apx))

	wire, err := c02Seal(sp, sb, p)
	if class == frame.MessageClassUnknown {
		if err == nil {
			c.Fatalf("Seal accepted unknown message type %d", sp.mt)
		}
		c.Class("unknown-type-refused")
		c.Eval(sp.key(), false, nil)
		return
	}
	if err != nil {
		c.Fatalf("Seal failed for a valid frame: %v", err)
	}
	l := c02LayoutOf(sp)
	if len(wire) != l.end {
		c.Fatalf("sealed frame has %d bytes, layout says %d", len(wire), l.end)
	}
	encrypted := sp.mt.IsEncrypted()
	signed := !encrypted

	// Confidentiality.
	if encrypted && sp.marker != nil && bytes.Contains(wire, sp.marker) {
		c.Fatalf("encrypted frame carries its payload marker in clear")
	}
	if encrypted && len(sp.payload) >= 24 && bytes.Contains(wire, sp.payload[:24]) {
		c.Fatalf("encrypted frame carries payload bytes in clear")
	}

	// Wrong sessions first (they must not disturb the right one).
	if _, perr, uerr := c02Unseal(rb, sp.offR, sp.ovR, wire, p.sBC); perr != nil {
		c.Fatalf("parse of an intact frame failed: %v", perr)
	} else if uerr == nil {
		c.Fatalf("frame sealed by A unsealed under B's session for a different sender C")
	}
	if encrypted {
		if _, _, uerr := c02Unseal(rb, sp.offR, sp.ovR, wire, p.sDA); uerr == nil {
			c.Fatalf("encrypted frame sealed for B unsealed under the session of a different receiver D")
		}
	}
	// Reflection: the frame handed back to its sender unseals under A's own
	// session for B (which belongs to the sender B) only if A accepted its own
	// frame as B's.
	if _, perr, uerr := c02Unseal(sb, sp.offS, sp.ovS, wire, p.sAB); perr == nil && uerr == nil {
		c.Fatalf("frame sealed by A for B unsealed under A's own session for B (a session that belongs to sender B)")
	}

	// Must-reject mutants, all against the right receiver session.
	rejects, accepts := 0, 0
	positions := c02Positions(c, sp, l, signed)
	for _, i := range positions {
		region := l.region(i)
		if c02MustAccept(region) {
			continue
		}
		for b := 0; b < bitsPerByte; b++ {
			bit := b
			if bitsPerByte < 8 {
				bit = c.Uniform("bit", 0, 7)
			}
			mut := append([]byte(nil), wire...)
			mut[i] ^= 1 << bit
			msg, perr, uerr := c02Unseal(rb, sp.offR, sp.ovR, mut, p.sBA)
			if perr == nil && uerr == nil {
				c.Fatalf("frame with bit %d of byte %d (%s) flipped still unsealed", bit, i, region)
			}
			if perr == nil && encrypted && len(sp.payload) >= 8 && bytes.Equal(msg, sp.payload) {
				c.Fatalf("rejected mutant (byte %d, %s) left the decrypted payload in the frame", i, region)
			}
			rejects++
		}
	}
	// Truncations and extensions of the protected part are rejected too.
	for _, cut := range []int{1, 2, 16} {
		if len(sp.apx) == 0 && len(wire)-cut > 0 {
			_, perr, uerr := c02Unseal(rb, sp.offR, sp.ovR, wire[:len(wire)-cut], p.sBA)
			if perr == nil && uerr == nil {
				c.Fatalf("frame truncated by %d bytes still unsealed", cut)
			}
			rejects++
		}
	}

	// The untouched original is accepted last: the rejections above were
	// authentication failures and left the receiver state alone.
	msg, perr, uerr := c02Unseal(rb, sp.offR, sp.ovR, wire, p.sBA)
	if perr != nil || uerr != nil {
		c.Fatalf("original frame not accepted after the rejected mutants: parse=%v unseal=%v", perr, uerr)
	}
	if !bytes.Equal(msg, sp.payload) {
		c.Fatalf("round trip changed the payload (%d bytes in, %d out)", len(sp.payload), len(msg))
	}
	// And exactly once.
	if _, _, uerr := c02Unseal(rb, sp.offR, sp.ovR, wire, p.sBA); uerr == nil {
		c.Fatalf("original frame accepted twice")
	}

	// Altered copies that arrive after the authentic frame was accepted (a
	// flooded frame changed under way by another forwarder): rejected like the
	// early ones, and not with the error the ping parser takes for "the same
	// frame once more" (it hands such frames to the handlers).
	late := 0
	for k := 0; k < 12 && len(positions) > 0; k++ {
		i := positions[c.Pick("late.pos", len(positions))]
		if c02MustAccept(l.region(i)) {
			continue
		}
		mut := append([]byte(nil), wire...)
		mut[i] ^= 1 << c.Uniform("late.bit", 0, 7)
		if c.Bool("late.newer") && i != 15 {
			mut[15] += byte(c.Int("late.ahead", 1, 100)) // sequence field moved ahead as well
		}
		msg, perr, uerr := c02Unseal(rb, sp.offR, sp.ovR, mut, p.sBA)
		if perr == nil && uerr == nil {
			c.Fatalf("altered copy (byte %d, %s) of an already accepted frame unsealed (payload delivered: %q)", i, l.region(i), trunc(string(msg), 40))
		}
		if perr == nil && errors.Is(uerr, state.ErrImmediateDuplicateFrame) {
			c.Fatalf("altered copy (byte %d, %s) of an already accepted frame is reported as the same frame once more (%v): the ping parser hands such frames to the handlers", i, l.region(i), uerr)
		}
		late++
	}
	if late > 0 {
		c.Class("altered-copies-after-the-authentic-frame")
	}

	// Must-accept mutants, each on a freshly sealed frame (acceptance consumes
	// the sequence number).
	type mutf func(w []byte) []byte
	var muts []struct {
		name string
		fn   mutf
	}
	addMut := func(name string, fn mutf) {
		muts = append(muts, struct {
			name string
			fn   mutf
		}{name, fn})
	}
	ttl := byte(c.Uniform("ttl", 0, 255))
	addMut("ttl", func(w []byte) []byte { w[1] = ttl; return w })
	addMut("ttl-bit", func(w []byte) []byte { w[1] ^= 0x10; return w })
	flow := byte(c.Uniform("flow", 0, 255))
	addMut("flow", func(w []byte) []byte { w[2] = flow; return w })
	if len(sp.apx) > 0 {
		ai := c.Uniform("apx.i", 0, len(sp.apx)-1)
		addMut("appendix-bit", func(w []byte) []byte { w[l.apxStart+ai] ^= 0x04; return w })
		addMut("appendix-removed", func(w []byte) []byte { return w[:l.apxStart] })
		addMut("appendix-shortened", func(w []byte) []byte { return w[:l.apxStart+len(sp.apx)/2] })
	}
	grow := c.Bytes("apx.grow", c02Len(c, "apx.grow.n", 1, 300, 1, 64, 300))
	addMut("appendix-grown", func(w []byte) []byte { return append(w, grow...) })
	for _, mu := range muts {
		w2, err := c02Seal(sp, sb, p)
		if err != nil {
			c.Fatalf("re-seal: %v", err)
		}
		w2 = mu.fn(append([]byte(nil), w2...))
		msg, perr, uerr := c02Unseal(rb, sp.offR, sp.ovR, w2, p.sBA)
		if perr != nil || uerr != nil {
			c.Fatalf("changing %s invalidated the frame: parse=%v unseal=%v", mu.name, perr, uerr)
		}
		if !bytes.Equal(msg, sp.payload) {
			c.Fatalf("changing %s changed the delivered payload", mu.name)
		}
		accepts++
	}

	// The appendix replaced through the API, the way a forwarding router does it
	// (parse at the receiver's builder with its margins, optionally clone, set a
	// new appendix that may be shorter, longer within the buffer, or so long
	// that the frame moves to a bigger pooled buffer), then carried on.
	for k, n := 0, c.Int("apx.api.n", 1, 3); k < n; k++ {
		w2, err := c02Seal(sp, sb, p)
		if err != nil {
			c.Fatalf("re-seal: %v", err)
		}
		ps := rb.GetPooledSlice(sp.offR + len(w2) + sp.ovR)
		copy(ps[sp.offR:], w2)
		f, err := rb.ParseFrame(ps[sp.offR:sp.offR+len(w2)], ps, sp.offR)
		if err != nil {
			rb.ReturnPooledSlice(ps)
			c.Fatalf("parse of an intact frame failed: %v", err)
		}
		useClone := c.Bool("apx.api.clone")
		g := f
		if useClone {
			g = f.Clone()
		}
		room := len(ps) - sp.offR - l.apxStart
		var newLen int
		switch c.Weighted("apx.api.size", 2, 2, 3, 3, 1) {
		case 0:
			newLen = c.Int("apx.api.short", 0, max(len(sp.apx), 1))
		case 1:
			newLen = c.Uniform("apx.api.fit", max(room-30, 0), room)
		case 2:
			newLen = c.Uniform("apx.api.over", room+1, room+40)
		case 3:
			tier := core.OneOf(c, "apx.api.tier", 600, 1600, 9100)
			newLen = max(tier-sp.offR-l.apxStart+c.Uniform("apx.api.tier.d", -40, 40), 0)
		default:
			newLen = c.Int("apx.api.any", 0, 9000)
		}
		newLen = min(newLen, 15000)
		newApx := c.Bytes("apx.api.bytes", newLen)
		serr := g.SetAppendixData(newApx)
		what := fmt.Sprintf("replacing the %d-byte appendix by %d bytes through SetAppendixData (clone=%v, buffer %d, margins %d/%d)", len(sp.apx), newLen, useClone, len(ps), sp.offR, sp.ovR)
		if serr != nil {
			// A refusal is allowed; it must leave the frame as it was.
			c.Class("appendix-api-refused")
			newApx = sp.apx
		} else {
			c.Class("appendix-api-set")
			if newLen > room {
				c.Class("appendix-api-moved-buffer")
			}
		}
		if !bytes.Equal(g.AppendixData(), newApx) && len(g.AppendixData())+len(newApx) > 0 {
			c.Fatalf("%s: frame carries a different appendix afterwards (err=%v)", what, serr)
		}
		// Carry the frame on: serialise and hand it to a fresh parse + unseal.
		out, derr := g.FrameDataWithMargins(0, 0)
		if derr != nil {
			c.Fatalf("%s: frame data unavailable afterwards: %v", what, derr)
		}
		out = append([]byte(nil), out...)
		if useClone {
			g.ReturnToPool()
		}
		f.ReturnToPool()
		msg, perr, uerr := c02Unseal(rb, sp.offR, sp.ovR, out, p.sBA)
		if perr != nil || uerr != nil {
			c.Fatalf("%s invalidated the frame: parse=%v unseal=%v", what, perr, uerr)
		}
		if !bytes.Equal(msg, sp.payload) {
			c.Fatalf("%s changed the delivered payload", what)
		}
		accepts++
	}

	// An hour and more of use: the routers look the session up by address for
	// every frame, time passes in steps of 25 minutes, the session cleaner runs
	// after each step. A session in use stays, and with it its keys.
	if c.Chance("hours-of-use", 1, 6) {
		for k := 0; k < 4; k++ {
			p.a.St.VerifAgeSessions(25 * time.Minute)
			p.b.St.VerifAgeSessions(25 * time.Minute)
			sA, sB := p.a.St.GetSession(p.b.ID.Addr.IP), p.b.St.GetSession(p.a.ID.Addr.IP)
			if sA != p.sAB || sB != p.sBA {
				c.Fatalf("after %d minutes of use the lookup by address returns another session object", 25*(k+1))
			}
			w2, err := c02Seal(sp, sb, p)
			if err != nil {
				c.Fatalf("seal after %d minutes of use: %v", 25*(k+1), err)
			}
			if _, perr, uerr := c02Unseal(rb, sp.offR, sp.ovR, w2, sB); perr != nil || uerr != nil {
				c.Fatalf("after %d minutes of use a frame does not unseal: parse=%v unseal=%v", 25*(k+1), perr, uerr)
			}
			p.a.St.VerifCleanSessions()
			p.b.St.VerifCleanSessions()
		}
		c.Class("hours-of-use-with-cleaner-ticks")
	}

	// A key setup that fails (the other side offers a key-exchange share the
	// exchange refuses: all zero, a low-order point; or one of the wrong size)
	// leaves the session as it was: the round trip continues under the old keys.
	if c.Chance("refused-kx", 1, 5) {
		share := make([]byte, 32)
		if c.Bool("refused-kx.short") {
			share = share[:c.Int("refused-kx.len", 0, 31)]
		}
		who, sess := "sender", p.sAB
		if c.Bool("refused-kx.at-receiver") {
			who, sess = "receiver", p.sBA
		}
		if _, _, err := sess.Encryption().InitKeyServer(share, "ECDH-X25519/BLAKE3"); err == nil {
			c.Fatalf("a key exchange with an all-zero share of %d bytes succeeded", len(share))
		}
		for k := 0; k < 2; k++ {
			w2, err := c02Seal(sp, sb, p)
			if err != nil {
				c.Fatalf("seal after a refused key exchange at the %s: %v", who, err)
			}
			msg, perr, uerr := c02Unseal(rb, sp.offR, sp.ovR, w2, p.sBA)
			if perr != nil || uerr != nil {
				c.Fatalf("after a refused key exchange at the %s frame %d does not unseal: parse=%v unseal=%v", who, k+1, perr, uerr)
			}
			if !bytes.Equal(msg, sp.payload) {
				c.Fatalf("after a refused key exchange the round trip changed the payload")
			}
		}
		c.Class("refused-key-exchange-in-between")
	}

	// New keys on the same sessions (a later hello exchange between the two
	// routers, in either role): the round trip holds again, frames of the old
	// keys do not unseal any more.
	if c.Chance("rekey", 1, 3) {
		client, server, who := p.sAB, p.sBA, "sender"
		if c.Bool("rekey.receiver-initiates") {
			client, server, who = p.sBA, p.sAB, "receiver"
		}
		// (some more traffic under the old keys first, so that the numbering is
		// well past the replay window when the new keys arrive)
		for k, n := 0, core.OneOf(c, "rekey.traffic-before", 0, 70, 130); k < n; k++ {
			w2, err := c02Seal(sp, sb, p)
			if err != nil {
				c.Fatalf("seal: %v", err)
			}
			if _, perr, uerr := c02Unseal(rb, sp.offR, sp.ovR, w2, p.sBA); perr != nil || uerr != nil {
				c.Fatalf("frame %d of a run of intact frames does not unseal: parse=%v unseal=%v", k+1, perr, uerr)
			}
		}
		if err := vnet.KeyExchangeAsHello(client, server); err != nil {
			c.Fatalf("second key exchange: %v", err)
		}
		for k := 0; k < 2; k++ {
			w2, err := c02Seal(sp, sb, p)
			if err != nil {
				c.Fatalf("seal after new keys (%s initiated): %v", who, err)
			}
			msg, perr, uerr := c02Unseal(rb, sp.offR, sp.ovR, w2, p.sBA)
			if perr != nil || uerr != nil {
				c.Fatalf("after a second key exchange (%s initiated) frame %d does not unseal: parse=%v unseal=%v", who, k+1, perr, uerr)
			}
			if !bytes.Equal(msg, sp.payload) {
				c.Fatalf("after a second key exchange the round trip changed the payload")
			}
		}
		if encrypted {
			if _, _, uerr := c02Unseal(rb, sp.offR, sp.ovR, wire, p.sBA); uerr == nil {
				c.Fatalf("a frame sealed under the previous keys unseals after the second key exchange")
			}
		}
		c.Class("re-keyed-in-place")
	}

	crossesTier := len(wire)+sp.offS+sp.ovS > 600
	nt := (len(sp.sw) > 0 || len(sp.apx) > 0 || crossesTier) && rejects > 0 && accepts > 0
	c.Eval(sp.key(), nt, func() any {
		return map[string]any{"type": sp.mt.String(), "type_byte": int(sp.mt), "payload": len(sp.payload), "switch_block": len(sp.sw), "appendix": len(sp.apx),
			"margins_sender": []int{sp.offS, sp.ovS}, "margins_receiver": []int{sp.offR, sp.ovR}, "must_reject_mutants": rejects, "must_accept_mutants": accepts}
	})
	c.Class("class-" + map[frame.MessageClass]string{frame.MessageClassSigned: "signed", frame.MessageClassEncrypted: "encrypted", frame.MessageClassPriorityEncrypted: "priority-encrypted"}[class])
	if l.end <= 400 && !signed {
		c.Class("all-bytes-swept")
	}
}

func TestC02(t *testing.T) {
	core.Run(t, c02Opts, func(c *core.Case) {
		sp := c02Gen(c, false)
		c02Check(c, sp, 1)
	})
}

// TestC02BitSweep flips every bit of every byte of small frames.
func TestC02BitSweep(t *testing.T) {
	core.Run(t, core.Opts{ID: "C02", Quick: 300, Thorough: 12000}, func(c *core.Case) {
		sp := c02Gen(c, true)
		// Only the encrypted classes are cheap enough for all 8 bits of all bytes;
		// signed frames get all bits of the positions c02Positions selects.
		c02Check(c, sp, 8)
	})
}
