package props

// C15 — Sequence numbers never repeat under one key; key rollover stays in sync.
//
// (a) Concurrency: G goroutines draw outgoing sequence numbers (the real
// EncryptionSession.Out, what Seal calls) and seal link frames on one session
// whose counter straddles the 32-bit wrap; run under the race detector.
// Oracle: (key, class, number) is injective; a pre-wrap number is never issued
// under the post-wrap key.
// (b) Rollover histories, single-threaded and deterministic: a duplex pair of
// real sessions, regular counters placed within +-300 of the wrap on either or
// both directions, generated seal/deliver sequences with bounded reordering,
// old-key frames re-presented after the wrap.
// Oracle: window model per (direction, class, key epoch) as in C03; old-key
// frames are rejected once the receiver rolled over; sender out key equals
// receiver in key after the wrap and differs from the previous one; priority
// numbering restarts; (key, class, number) injective over the duplex history.

import (
	"crypto/cipher"
	"encoding/hex"
	"fmt"
	"runtime"
	"strings"
	"sync"
	"testing"

	"github.com/mycoria/mycoria/frame"
	"github.com/mycoria/mycoria/peering"
	"github.com/mycoria/mycoria/state"

	"verif/core"
	"verif/ids"
	"verif/vnet"
)

var c15Opts = core.Opts{ID: "C15", Quick: 1500, Thorough: 60000}

const c15Upper = 0xFFFF_FF00

var c15Payload = []byte("c15-payload-bytes")

type c15Sealed struct {
	dir    int // 0: A->B, 1: B->A
	prio   bool
	epoch  int
	seq    uint32
	key    string
	data   []byte
	passed int // times overtaken
}

type c15Dir struct {
	send, recv   *state.Session
	sendE, recvE *state.EncryptionSession // what seals / unseals (link sessions in link mode)
	sendH, recvH *state.EncryptionSessionTestHelper
	epochS       int // sender epoch (number of wraps seen at seal time)
	epochR       int // receiver epoch
	// window model per class for the receiver's current epoch
	accepted [2]map[uint32]bool
	newest   [2]uint32
	anyAcc   [2]bool
	pending  []*c15Sealed
	done     []*c15Sealed
	keyOf    map[int]string // sender's out key per key epoch
	lastSeq  [2]uint32
	wrapped  bool
}

func c15cls(prio bool) int {
	if prio {
		return 1
	}
	return 0
}

func TestC15Rollover(t *testing.T) {
	core.Run(t, c15Opts, func(c *core.Case) {
		pa := vnet.NewParty(ids.Get(c.Pick("idA", 6)))
		pb := vnet.NewParty(ids.Get(6 + c.Pick("idB", 6)))
		sAB, sBA := pa.SessionWith(pb), pb.SessionWith(pa)
		if err := vnet.KeyExchange(sAB, sBA); err != nil {
			c.Fatalf("key exchange: %v", err)
		}
		b := frame.NewFrameBuilder()
		dirs := [2]*c15Dir{
			{send: sAB, recv: sBA},
			{send: sBA, recv: sAB},
		}
		// Carrier: end-to-end frames under the routers' session, or link frames
		// under link-layer sessions derived the way the peering handshake does
		// (link frames only use the regular class).
		linkMode := c.Weighted("carrier", 2, 1) == 1
		var parents []*state.EncryptionSession
		if linkMode {
			ea, eb := state.NewEncryptionSession(), state.NewEncryptionSession()
			kx1, kxT1, err := ea.InitKeyClientStart()
			if err != nil {
				c.Fatalf("kx: %v", err)
			}
			kx2, kxT2, err := eb.InitKeyServer(kx1, kxT1)
			if err != nil {
				c.Fatalf("kx: %v", err)
			}
			if err := ea.InitKeyClientComplete(kx2, kxT2); err != nil {
				c.Fatalf("kx: %v", err)
			}
			la, err1 := ea.DeriveSessionFromKX(true, "link layer crypt")
			lb, err2 := eb.DeriveSessionFromKX(false, "link layer crypt")
			if err1 != nil || err2 != nil {
				c.Fatalf("derive link sessions: %v %v", err1, err2)
			}
			parents = []*state.EncryptionSession{ea, eb}
			dirs[0].sendE, dirs[0].recvE = la, lb
			dirs[1].sendE, dirs[1].recvE = lb, la
		} else {
			for _, d := range dirs {
				d.sendE, d.recvE = d.send.Encryption(), d.recv.Encryption()
			}
		}
		for _, d := range dirs {
			d.sendH = &state.EncryptionSessionTestHelper{EncryptionSession: d.sendE}
			d.recvH = &state.EncryptionSessionTestHelper{EncryptionSession: d.recvE}
			d.accepted = [2]map[uint32]bool{{}, {}}
		}
		// Place the regular counters.
		var ops []string
		for i, d := range dirs {
			switch c.Weighted(fmt.Sprintf("offset%d", i), 2, 5, 1) {
			case 0: // far from the wrap
			case 1:
				k := uint32(c.Int(fmt.Sprintf("offset%d.k", i), 2, 300))
				d.sendH.ReglSetOut(0xFFFFFFFF - k + 1)
				ops = append(ops, fmt.Sprintf("dir%d regular counter at 2^32-%d", i, k))
			default:
				k := uint32(c.Int(fmt.Sprintf("offset%d.k", i), 2, 12))
				d.sendH.ReglSetOut(0xFFFFFFFF - k + 1)
				ops = append(ops, fmt.Sprintf("dir%d regular counter at 2^32-%d", i, k))
			}
		}
		seen := map[string]string{} // key|class|seq -> description
		if linkMode {
			// The sessions the link sessions were derived from carry frames of
			// their own (the routers' end-to-end traffic): their numbers count too.
			for pi, pe := range parents {
				ph := state.EncryptionSessionTestHelper{EncryptionSession: pe}
				for k := 0; k < 3; k++ {
					seq, _, _, _, err := pe.Out(false)
					if err != nil {
						c.Fatalf("parent session %d: %v", pi, err)
					}
					seen[fmt.Sprintf("%s|%d|%d", hex.EncodeToString(ph.OutKey()), 0, seq)] = fmt.Sprintf("frame %d of the session link session %d was derived from", k+1, pi)
				}
			}
		}
		addrs := [2][2]*vnet.Party{{pa, pb}, {pb, pa}}
		nt := false
		prioBothAroundWrap := [2]bool{}

		seal := func(di int, prio bool) {
			d := dirs[di]
			mt := frame.NetworkTraffic
			if prio {
				mt = frame.RouterCtrl
			}
			before := hex.EncodeToString(d.sendH.OutKey())
			var seq uint32
			var data []byte
			if linkMode {
				prio = false
				lf := make(peering.LinkFrame, peering.FrameOffset+len(c15Payload)+peering.FrameOverhead)
				copy(lf[peering.FrameOffset:], c15Payload)
				if err := lf.Seal(d.sendE); err != nil {
					c.Fatalf("seal link frame dir%d: %v", di, err)
				}
				seq, data = lf.SequenceNum(), []byte(lf)
			} else {
				f, err := b.NewFrameV1(addrs[di][0].ID.Addr.IP, addrs[di][1].ID.Addr.IP, mt, nil, c15Payload, nil)
				if err != nil {
					c.Fatalf("new frame: %v", err)
				}
				if err := f.Seal(d.send); err != nil {
					c.Fatalf("seal dir%d prio=%v: %v", di, prio, err)
				}
				seq = f.SequenceNum()
				data, _ = f.FrameDataWithMargins(0, 0)
				data = append([]byte(nil), data...)
				f.ReturnToPool()
			}
			after := hex.EncodeToString(d.sendH.OutKey())
			if after != before {
				if prio {
					c.Fatalf("sealing a priority frame rolled the key over")
				}
				if d.keyOf == nil {
					d.keyOf = map[int]string{}
				}
				d.keyOf[d.epochS] = before
				d.epochS++
				d.wrapped = true
				if seq != 1 {
					c.Fatalf("dir%d: first regular frame after the wrap has number %d, want 1", di, seq)
				}
				// The priority sequence of this direction restarts.
				d.lastSeq[1] = 0
			}
			cls := c15cls(prio)
			if seq == 0 {
				c.Fatalf("dir%d: frame sealed with sequence number 0", di)
			}
			if !(after != before) && d.lastSeq[cls] != 0 && seq != d.lastSeq[cls]+1 {
				// Only informational: numbering is expected to be consecutive.
				c.Note("dir%d class %d: number %d follows %d", di, cls, seq, d.lastSeq[cls])
			}
			if prio && d.wrapped && d.lastSeq[1] == 0 && seq != 1 {
				c.Fatalf("dir%d: priority numbering did not restart at 1 after the wrap (got %d)", di, seq)
			}
			d.lastSeq[cls] = seq
			// (the key alone identifies the direction: the two directions of a
			// session never share a key, before or after a rollover)
			k := fmt.Sprintf("%s|%d|%d", after, cls, seq)
			if prev, dup := seen[k]; dup {
				c.Fatalf("dir%d: sequence number %d (class %d) used twice under one key (first: %s)", di, seq, cls, prev)
			}
			seen[k] = fmt.Sprintf("op %d", len(ops))
			d.pending = append(d.pending, &c15Sealed{dir: di, prio: prio, epoch: d.epochS, seq: seq, key: after, data: data})
			ops = append(ops, fmt.Sprintf("seal dir%d %s #%d (epoch %d)", di, map[bool]string{false: "regular", true: "priority"}[prio], seq, d.epochS))
		}

		var deliverAgain []*c15Sealed
		var deliver func(x *c15Sealed, again bool)
		deliver = func(x *c15Sealed, again bool) {
			d := dirs[x.dir]
			cls := c15cls(x.prio)
			var err error
			if linkMode {
				lf := peering.LinkFrame(append([]byte(nil), x.data...))
				if err = lf.Unseal(d.recvE); err == nil && string(lf.LinkData()) != string(c15Payload) {
					c.Fatalf("dir%d: link frame #%d unsealed to a different payload", x.dir, x.seq)
				}
			} else {
				err = c03UnsealCopy(b, x.data, d.recv)
			}
			verdict := 0 // +1 must accept, -1 must reject, 0 either
			switch {
			case x.epoch < d.epochR:
				verdict = -1
			case x.epoch == d.epochR:
				switch {
				case d.accepted[cls][x.seq]:
					verdict = -1
				case !d.anyAcc[cls] || x.seq > d.newest[cls] || d.newest[cls]-x.seq <= 64:
					verdict = 1
				}
			case x.epoch == d.epochR+1:
				if !x.prio && d.anyAcc[0] && d.newest[0] >= c15Upper && x.seq <= 255 {
					verdict = 1
				} else {
					// Priority frame of the next epoch before the receiver rolled
					// over, or wrap without the receiver having seen the last 256
					// numbers: outside the claim.
					c.Class("next-epoch-frame-before-receiver-rolled")
				}
			}
			ops = append(ops, fmt.Sprintf("deliver dir%d class%d #%d epoch%d again=%v -> err=%v", x.dir, cls, x.seq, x.epoch, again, err))
			c.Note("%s", ops[len(ops)-1])
			if err == nil && verdict < 0 {
				c.Fatalf("dir%d: frame #%d (class %d, key epoch %d, receiver epoch %d) was accepted but must be rejected", x.dir, x.seq, cls, x.epoch, d.epochR)
			}
			if err != nil && verdict > 0 {
				c.Fatalf("dir%d: frame #%d (class %d, key epoch %d, receiver epoch %d, newest %d) was rejected: %v", x.dir, x.seq, cls, x.epoch, d.epochR, d.newest[cls], err)
			}
			if err == nil {
				if x.epoch > d.epochR {
					// Receiver rolled over.
					d.epochR = x.epoch
					d.accepted = [2]map[uint32]bool{{}, {}}
					d.anyAcc = [2]bool{}
					d.newest = [2]uint32{}
					in := hex.EncodeToString(d.recvH.InKey())
					if in != x.key {
						c.Fatalf("dir%d: after the wrap receiver in-key differs from the sender's out-key", x.dir)
					}
					// (compared with the key of the epoch before the frame's: the sender
					// may have wrapped a second time before the receiver follows the first)
					if prev, ok := d.keyOf[x.epoch-1]; ok && in == prev {
						c.Fatalf("dir%d: key did not change at the wrap", x.dir)
					}
				}
				d.accepted[cls][x.seq] = true
				if !d.anyAcc[cls] || x.seq > d.newest[cls] {
					d.newest[cls] = x.seq
				}
				d.anyAcc[cls] = true
				// Exactly at the lower edge of the rollover zone: frames from the
				// beginning of this key epoch are offered again.
				if cls == 0 && x.seq == c15Upper && !again {
					n := 0
					for _, old := range d.done {
						if old.epoch == x.epoch && !old.prio && old.seq <= 255 && n < 3 {
							n++
							deliverAgain = append(deliverAgain, old)
						}
					}
				}
			}
			for len(deliverAgain) > 0 && !again {
				old := deliverAgain[0]
				deliverAgain = deliverAgain[1:]
				c.Class("early-frame-replayed-at-the-edge-of-the-rollover-zone")
				deliver(old, true)
			}
		}

		n := c.Int("ops", 4, 120)
		for i := 0; i < n; i++ {
			switch c.Weighted("op", 0, 30, 12, 40, 8, 4, 8, 3, 3, 3) {
			case 9: // a key exchange is started on a live session (the router dials the other one: its own share is generated) and is not completed (yet)
				di := c.Pick("kxstart.dir", 2)
				d := dirs[di]
				which, enc := "sender", d.sendE
				if c.Bool("kxstart.receiver") {
					which, enc = "receiver", d.recvE
				}
				before := hex.EncodeToString(d.sendH.OutKey())
				if _, _, err := enc.InitKeyClientStart(); err != nil {
					c.Fatalf("starting a key exchange: %v", err)
				}
				if hex.EncodeToString(d.sendH.OutKey()) != before {
					c.Fatalf("starting a key exchange changed the out key")
				}
				if c.Bool("kxstart.cleanup") {
					enc.InitCleanup() // the link setup failed or ended: exchange keys dropped
				}
				ops = append(ops, fmt.Sprintf("key exchange started (own share only) at dir%d %s", di, which))
				c.Class("history-with-a-key-exchange-started-and-left-open")
			case 1:
				seal(c.Pick("seal.dir", 2), false)
			case 2:
				seal(c.Pick("seal.dir", 2), true)
			case 3: // deliver with bounded reordering
				di := c.Pick("dlv.dir", 2)
				d := dirs[di]
				if len(d.pending) == 0 {
					continue
				}
				idx := 0
				if d.pending[0].passed < 8 {
					w := len(d.pending)
					if w > 8 {
						w = 8
					}
					idx = c.Int("dlv.idx", 0, w-1)
				}
				x := d.pending[idx]
				for _, p := range d.pending[:idx] {
					p.passed++
				}
				d.pending = append(d.pending[:idx], d.pending[idx+1:]...)
				deliver(x, false)
				d.done = append(d.done, x)
			case 8: // a long time passes: the regular counter of one direction is close to the wrap (again)
				di := c.Pick("jump.dir", 2)
				d := dirs[di]
				if len(d.pending) > 0 {
					continue
				}
				k := uint32(c.Int("jump.k", 2, 300))
				if d.lastSeq[0] >= 0xFFFFFFFF-k {
					continue // time does not run backwards
				}
				d.sendH.ReglSetOut(0xFFFFFFFF - k + 1)
				ops = append(ops, fmt.Sprintf("dir%d regular counter jumps to 2^32-%d", di, k))
				c.Class("history-with-a-counter-jump")
			case 7: // the remote asks for new keys with an unusable key-exchange share: the attempt fails
				di := c.Pick("badkx.dir", 2)
				d := dirs[di]
				which, enc := "sender", d.sendE
				if c.Bool("badkx.receiver") {
					which, enc = "receiver", d.recvE
				}
				share := make([]byte, 32) // a low-order point: parses, but the exchange refuses it
				if c.Bool("badkx.short") {
					share = share[:c.Int("badkx.len", 0, 31)]
				}
				before := hex.EncodeToString(d.sendH.OutKey())
				_, _, err := enc.InitKeyServer(share, "ECDH-X25519/BLAKE3")
				ops = append(ops, fmt.Sprintf("failed key exchange at dir%d %s (share of %d bytes) -> err=%v", di, which, len(share), err))
				if err == nil {
					c.Fatalf("a key exchange with an all-zero share of %d bytes succeeded", len(share))
				}
				if hex.EncodeToString(d.sendH.OutKey()) != before {
					c.Fatalf("a failed key exchange changed the out key")
				}
				c.Class("history-with-a-failed-key-exchange")
			case 6: // a damaged copy of a frame that is still under way (also of the first frames after the wrap)
				di := c.Pick("forge.dir", 2)
				d := dirs[di]
				if len(d.pending) == 0 {
					continue
				}
				x := d.pending[c.Pick("forge.idx", len(d.pending))]
				cp := append([]byte(nil), x.data...)
				cp[len(cp)-1-c.Int("forge.back", 0, 15)] ^= 1 << c.Uniform("forge.bit", 0, 7)
				var err error
				if linkMode {
					err = peering.LinkFrame(cp).Unseal(d.recvE)
				} else {
					err = c03UnsealCopy(b, cp, d.recv)
				}
				ops = append(ops, fmt.Sprintf("damaged copy of dir%d #%d epoch%d -> err=%v", di, x.seq, x.epoch, err))
				if err == nil {
					c.Fatalf("dir%d: a damaged copy of frame #%d unsealed", di, x.seq)
				}
			case 5: // a run of regular frames sealed and delivered in order (long-lived traffic)
				di := c.Pick("burst.dir", 2)
				d := dirs[di]
				k := c.Int("burst.n", 20, 300)
				if last := int(d.lastSeq[0]); last < 250 && c.Bool("burst.to-250") {
					k = 250 - last + c.Int("burst.off", -4, 4)
				}
				for len(d.pending) > 0 {
					x := d.pending[0]
					d.pending = d.pending[1:]
					deliver(x, false)
					d.done = append(d.done, x)
				}
				for j := 0; j < k; j++ {
					seal(di, false)
					x := d.pending[0]
					d.pending = d.pending[1:]
					deliver(x, false)
					if j >= k-3 {
						d.done = append(d.done, x)
					}
				}
				c.Class("history-with-a-long-run")
			case 4: // re-present an already delivered frame
				di := c.Pick("re.dir", 2)
				d := dirs[di]
				if len(d.done) == 0 {
					continue
				}
				deliver(d.done[c.Pick("re.idx", len(d.done))], true)
			}
		}
		// Drain what is left in order, then re-present some pre-wrap frames.
		for di, d := range dirs {
			for _, x := range d.pending {
				deliver(x, false)
				d.done = append(d.done, x)
			}
			d.pending = nil
			if d.epochR > 0 {
				cnt := 0
				for _, x := range d.done {
					if x.epoch < d.epochR && cnt < 4 {
						deliver(x, true)
						cnt++
					}
				}
				// Both ends of the wrapped direction restarted the priority numbering;
				// the other direction's priority numbering must not have been touched:
				// covered by the injectivity map and the window model above.
				other := dirs[1-di]
				hasPrioBoth := false
				for _, x := range d.done {
					if x.prio {
						for _, y := range other.done {
							if y.prio {
								hasPrioBoth = true
							}
						}
					}
				}
				prioBothAroundWrap[di] = hasPrioBoth
				if hasPrioBoth {
					nt = true
				}
			}
		}
		if linkMode && (dirs[0].epochR > 0 || dirs[1].epochR > 0) {
			nt = true
		}
		c.Eval(strings.Join(ops, ";"), nt, func() any { return map[string]any{"ops": ops, "carrier_link_frames": linkMode} })
		if dirs[0].epochR > 0 || dirs[1].epochR > 0 {
			c.Class("history-with-a-wrap")
		}
		if dirs[0].epochR > 0 && dirs[1].epochR > 0 {
			c.Class("both-directions-wrapped")
		}
		if nt && !linkMode {
			c.Class("priority-frames-on-both-directions-around-a-wrap")
		}
		if linkMode {
			c.Class("carrier-link-frames")
			if dirs[0].epochR > 0 || dirs[1].epochR > 0 {
				c.Class("carrier-link-frames-with-a-wrap")
			}
		}
	})
}

type c15Draw struct {
	c    cipher.AEAD
	prio bool
	seq  uint32
}

// TestC15Concurrent draws sequence numbers from many goroutines across the wrap.
func TestC15Concurrent(t *testing.T) {
	core.Run(t, core.Opts{ID: "C15", Quick: 60, Thorough: 2000}, func(c *core.Case) {
		g := c.Int("goroutines", 2, 32)
		per := c.Int("per", 50, 1500)
		ea, _, err := vnet.EncPair()
		if err != nil {
			c.Fatalf("enc pair: %v", err)
		}
		h := &state.EncryptionSessionTestHelper{EncryptionSession: ea}
		total := g * per
		// Straddle the wrap: start so that the wrap falls inside the run.
		back := uint32(c.Int("back", 1, total))
		h.ReglSetOut(0xFFFFFFFF - back + 1)
		procs := core.OneOf(c, "gomaxprocs", 16, 8, 4, 2)
		old := runtime.GOMAXPROCS(procs)
		defer runtime.GOMAXPROCS(old)
		linkFrames := c.Bool("linkframes")
		yieldEvery := c.Int("yield", 0, 7)

		results := make([][]c15Draw, g)
		var wg sync.WaitGroup
		var start sync.WaitGroup
		start.Add(1)
		for i := 0; i < g; i++ {
			i := i
			wg.Add(1)
			go func() {
				defer wg.Done()
				start.Wait()
				out := make([]c15Draw, 0, per)
				buf := make([]byte, peering.FrameOffset+8+peering.FrameOverhead)
				for j := 0; j < per; j++ {
					prio := (i+j)%5 == 0
					if linkFrames && !prio {
						// Real link-frame sealing; the cipher is not visible here, so the
						// key epoch is inferred from the number (small = after the wrap).
						lf := peering.LinkFrame(buf)
						if err := lf.Seal(ea); err != nil {
							out = append(out, c15Draw{seq: 0})
							continue
						}
						out = append(out, c15Draw{c: nil, prio: false, seq: lf.SequenceNum()})
					} else {
						seq, _, _, ci, err := ea.Out(prio)
						if err != nil {
							out = append(out, c15Draw{seq: 0})
							continue
						}
						out = append(out, c15Draw{c: ci, prio: prio, seq: seq})
					}
					if yieldEvery > 0 && j%yieldEvery == 0 {
						runtime.Gosched()
					}
				}
				results[i] = out
			}()
		}
		start.Done()
		wg.Wait()

		type key struct {
			c    cipher.AEAD
			prio bool
			seq  uint32
		}
		seenK := map[key]int{}
		var firstC cipher.AEAD
		adjacentAcrossWrap := false
		var ciphers []cipher.AEAD
		for gi, out := range results {
			for _, d := range out {
				if d.seq == 0 {
					c.Fatalf("goroutine %d: sequence number 0 issued or seal failed", gi)
				}
				k := key{d.c, d.prio, d.seq}
				if d.c == nil {
					// link frame: epoch by magnitude
					k.c = nil
				}
				if prev, dup := seenK[k]; dup {
					c.Fatalf("sequence number %d (priority=%v) issued twice under one key (goroutines %d and %d)", d.seq, d.prio, prev, gi)
				}
				seenK[k] = gi
				if d.c != nil && !d.prio {
					known := false
					for _, x := range ciphers {
						if x == d.c {
							known = true
						}
					}
					if !known {
						ciphers = append(ciphers, d.c)
					}
					if firstC == nil && d.seq > 1<<31 {
						firstC = d.c
					}
				}
			}
		}
		// Epoch consistency: numbers above 2^31 belong to the pre-wrap key,
		// numbers below to the post-wrap key.
		var pre, post cipher.AEAD
		for _, out := range results {
			for _, d := range out {
				if d.c == nil || d.prio {
					continue
				}
				if d.seq > 1<<31 {
					if pre == nil {
						pre = d.c
					} else if pre != d.c {
						c.Fatalf("pre-wrap number %d was issued under a second key", d.seq)
					}
				} else {
					if post == nil {
						post = d.c
					} else if post != d.c {
						c.Fatalf("post-wrap number %d was issued under a second key", d.seq)
					}
				}
			}
		}
		if pre != nil && post != nil && pre == post {
			c.Fatalf("numbers before and after the wrap were issued under the same key")
		}
		// Non-trivial: two different goroutines obtained the numbers on both sides of the wrap.
		var gLast, gFirst = -1, -1
		for gi, out := range results {
			for _, d := range out {
				if !d.prio && d.seq == 0xFFFFFFFF {
					gLast = gi
				}
				if !d.prio && d.seq == 1 {
					gFirst = gi
				}
			}
		}
		if gLast >= 0 && gFirst >= 0 && gLast != gFirst {
			adjacentAcrossWrap = true
		}
		c.Eval(fmt.Sprintf("g=%d per=%d back=%d procs=%d link=%v yield=%d", g, per, back, procs, linkFrames, yieldEvery), adjacentAcrossWrap, func() any {
			return map[string]any{"goroutines": g, "draws_each": per, "start": fmt.Sprintf("2^32-%d", back), "gomaxprocs": procs, "link_frames": linkFrames, "distinct_numbers": len(seenK)}
		})
		if adjacentAcrossWrap {
			c.Class("wrap-split-between-two-goroutines")
		}
	})
}
