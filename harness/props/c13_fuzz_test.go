package props

// Native coverage-guided fuzz targets for C13 (thorough tier only).

import (
	"net/netip"
	"testing"
	"time"

	"github.com/mycoria/mycoria/frame"
	"github.com/mycoria/mycoria/m"
	"github.com/mycoria/mycoria/peering"

	"verif/ids"
	"verif/vnet"
)

func fuzzSeedFrames(f *testing.F) {
	b := frame.NewFrameBuilder()
	for _, mt := range []frame.MessageType{0, 1, 2, 3, 8, 16, 17, 99} {
		for _, sw := range [][]byte{nil, {5, 0, 0}, make([]byte, 255)} {
			fr, err := b.NewFrameV1(netip.MustParseAddr("fd10::1"), netip.MustParseAddr("fd10::2"), mt, sw, []byte("seed payload for the fuzzer"), []byte("appendix"))
			if err == nil {
				d, _ := fr.FrameDataWithMargins(0, 0)
				f.Add(append([]byte(nil), d...))
				fr.ReturnToPool()
			}
		}
	}
	// Hostile constants.
	f.Add([]byte{})
	f.Add([]byte{1})
	f.Add([]byte{1, 0, 0})
	f.Add(append(append(make([]byte, 48), 255), make([]byte, 300)...))
	hostile := make([]byte, 120)
	hostile[0] = 1
	hostile[48] = 0
	hostile[49], hostile[50] = 0xFF, 0xFF
	f.Add(hostile)
}

func FuzzC13ParseFrame(f *testing.F) {
	fuzzSeedFrames(f)
	f.Fuzz(func(t *testing.T, data []byte) {
		if len(data) > 60000 {
			return
		}
		b := frame.NewFrameBuilder()
		b.SetFrameMargins(12, 16)
		ps := b.GetPooledSlice(12 + len(data) + 16)
		copy(ps[12:], data)
		fr, err := b.ParseFrame(ps[12:12+len(data)], ps, 12)
		if err != nil {
			return
		}
		extra := data
		if len(extra) > 200 {
			extra = extra[:200]
		}
		c13Exercise(b, fr, extra)
	})
}

func FuzzC13LinkFrame(f *testing.F) {
	f.Add([]byte{})
	f.Add([]byte{0, 4, 1, 0})
	f.Add(make([]byte, 11))
	f.Add(make([]byte, 12))
	f.Add(make([]byte, 27))
	f.Add(make([]byte, 28))
	f.Add(make([]byte, 64))
	_, eb, _ := vnet.EncPair()
	f.Fuzz(func(t *testing.T, data []byte) {
		cp := append([]byte(nil), data...)
		_ = peering.LinkFrame(cp).Unseal(eb)
	})
}

// FuzzC13PingMsg: the fuzzer controls message type, message data and appendix
// of a frame that is correctly signed by a direct peer of a real router.
func FuzzC13PingMsg(f *testing.F) {
	f.Add(uint8(1), []byte{1, 0, 0xf6}, []byte{})
	f.Add(uint8(0), []byte{1, 3, 0xa1, 0x61, 0x74, 0x68}, make([]byte, 65))
	f.Add(uint8(3), []byte{1, 255}, []byte{})
	f.Add(uint8(8), make([]byte, 60), []byte{})
	pool := ids.Routable()
	f.Fuzz(func(t *testing.T, mtb uint8, msg []byte, apx []byte) {
		if len(msg) == 0 || len(msg) > 10000 || len(apx) > 10000 {
			return
		}
		vn := vnet.New()
		v, err := vn.AddNode("V", pool[0], vnet.NodeOpts{WithTun: true})
		if err != nil {
			t.Skip()
		}
		p, _ := vn.AddNode("P", pool[1], vnet.NodeOpts{})
		lv, _, err := vn.Connect(v, p, vnet.LinkOpts{LabelA: 300, LabelB: 7, LatA: 2, LatB: 2})
		if err != nil {
			t.Skip()
		}
		mt := frame.MessageType(mtb)
		dst := v.IP()
		if mtb&0x80 != 0 {
			dst, mt = m.RouterAddress, frame.MessageType(mtb&0x7f)
		}
		fr, err := p.Builder.NewFrameV1(p.IP(), dst, mt, nil, msg, nil)
		if err != nil {
			return
		}
		if mt.Class() == frame.MessageClassSigned {
			fr.SetTTL(0)
			fr.SetSequenceTime(time.Now())
			_ = fr.SignRaw(p.ID.Addr.PrivateKey)
			fr.SetTTL(32)
		}
		d, _ := fr.FrameDataWithMargins(0, 0)
		data := append(append([]byte(nil), d...), apx...)
		fr.ReturnToPool()
		res := vn.Inject(v, lv, data)
		if res.Panicked {
			t.Fatalf("worker panic: %v", vn.Panics)
		}
		for steps := 0; len(vn.Queue) > 0 && steps < 10; steps++ {
			if _, r := vn.Deliver(0); r.Panicked {
				t.Fatalf("worker panic downstream: %v", vn.Panics)
			}
		}
	})
}
