package props

// C16 — Link registry, switch labels and peer routes stay consistent through churn.
//
// Generator: 2..5 real peering managers with real routing tables, connected
// through the message-scheduled relay; event sequences of connect, cross-connect
// (both dial each other at once), double dial, failure during setup at a chosen
// message, local close, remote close (EOF propagated), broken connection (both
// sides error), half-open break, reconnect. While handshakes are in progress
// the order in which parked handshake messages of all connections are
// forwarded is generated (weighted to lock-step). Identities are chosen so that
// derived labels collide in a share of cases. Runs under the race detector.
// Oracle at every quiescent point (all setups returned, all closes observed):
// the registry equals the set of established, not-closing links; every such
// link is found by peer address and by label; labels non-zero and distinct; at
// most one live link per peer; direct-peer routes exactly for those peers and no
// route via anybody else. Setup failures are allowed, setup panics are not.

import (
	"fmt"
	"net/netip"
	"sort"
	"strings"
	"testing"
	"time"

	"github.com/mycoria/mycoria/config"
	"github.com/mycoria/mycoria/m"
	"github.com/mycoria/mycoria/peering"

	"verif/core"
	"verif/ids"
	"verif/vnet"
	"verif/wire"
)

var c16Opts = core.Opts{ID: "C16", Quick: 250, Thorough: 10000}

type c16Conn struct {
	conn   *wire.Conn
	a, b   int
	closed [2]bool // rig closed / propagated closure to this end
}

type c16World struct {
	// advanced: connections whose first messages were forwarded by advance
	// already (drive does not wait for a first message of theirs).
	advanced         map[*c16Conn]bool
	c                *core.Case
	nodes            []*vnet.Node
	conns            []*c16Conn
	ops              []string
	inconcl          bool
	cross            bool
	failed           bool
	closedAfterCross bool
}

func (w *c16World) log(format string, args ...any) {
	s := fmt.Sprintf(format, args...)
	w.ops = append(w.ops, s)
	w.c.Note("%s", s)
}

// drive forwards parked handshake messages of the given connections until all
// their setups returned. failAt >= 0 cuts connection 0 when its failAt-th
// message (counted over both directions) would be forwarded.
func (w *c16World) drive(cs []*c16Conn, lockstep bool, failAt int) {
	c := w.c
	type src struct {
		cc  *c16Conn
		end *wire.End
		to  *wire.End
	}
	forwarded := map[*c16Conn]int{}
	sentBy := map[*wire.End]int{}
	for _, cc := range cs {
		if w.advanced[cc] {
			continue
		}
		for _, e := range []*wire.End{cc.conn.A, cc.conn.B} {
			if err := e.WaitParked(1); err != nil && err == wire.ErrInconclusive {
				w.inconcl = true
			}
		}
	}
	for step := 0; step < 200; step++ {
		var ready []src
		for _, cc := range cs {
			if cc.conn.A.Parked() > 0 {
				ready = append(ready, src{cc, cc.conn.A, cc.conn.B})
			}
			if cc.conn.B.Parked() > 0 {
				ready = append(ready, src{cc, cc.conn.B, cc.conn.A})
			}
		}
		if len(ready) == 0 {
			break
		}
		pick := 0
		if lockstep {
			// Lock-step: always the end that has forwarded the fewest messages so far.
			for i, s := range ready {
				if sentBy[s.end] < sentBy[ready[pick].end] {
					pick = i
				}
			}
		} else {
			pick = c.Pick("sched", len(ready))
		}
		s := ready[pick]
		if failAt >= 0 && s.cc == cs[0] && forwarded[s.cc] == failAt {
			w.log("  connection n%d->n%d cut before its message %d", s.cc.a, s.cc.b, failAt)
			s.cc.conn.A.Close()
			s.cc.conn.B.Close()
			_ = s.cc.conn.A.WaitDone()
			_ = s.cc.conn.B.WaitDone()
			w.failed = true
			failAt = -1
			continue
		}
		msg := s.end.Take(0)
		forwarded[s.cc]++
		sentBy[s.end]++
		prev := s.to.Parked()
		if err := s.to.Write(msg); err != nil {
			continue
		}
		if err := s.to.WaitReaction(prev); err != nil {
			w.inconcl = true
		}
	}
	for _, cc := range cs {
		for _, e := range []*wire.End{cc.conn.A, cc.conn.B} {
			if !e.Done() {
				e.Close()
			}
			if err := e.WaitDone(); err != nil {
				w.inconcl = true
			}
			if e.Panicked() {
				c.Fatalf("link setup at %s panicked: %v\nevents: %s", e.Node.Name, e.Err, strings.Join(w.ops, "; "))
			}
		}
		if cc.conn.A.Err != nil || cc.conn.B.Err != nil {
			w.log("  setup n%d->n%d: dialer err=%v, acceptor err=%v", cc.a, cc.b, cc.conn.A.Err, cc.conn.B.Err)
			// A failed side closed its conn; let the other side (if it completed) see EOF.
			w.closeEnds(cc, true, true)
		} else {
			w.log("  setup n%d->n%d completed (labels %d/%d)", cc.a, cc.b, cc.conn.A.Link.SwitchLabel(), cc.conn.B.Link.SwitchLabel())
		}
	}
}

// advance forwards the first n handshake messages of one connection, taking
// turns between its two ends, and leaves the setup open.
func (w *c16World) advance(cc *c16Conn, n int) {
	A, B := cc.conn.A, cc.conn.B
	for _, e := range []*wire.End{A, B} {
		if err := e.WaitParked(1); err != nil && err == wire.ErrInconclusive {
			w.inconcl = true
			return
		}
	}
	if w.advanced == nil {
		w.advanced = map[*c16Conn]bool{}
	}
	w.advanced[cc] = true
	sent := map[*wire.End]int{}
	for k := 0; k < n; k++ {
		var from, to *wire.End
		for _, p := range [][2]*wire.End{{A, B}, {B, A}} {
			if p[0].Parked() > 0 && (from == nil || sent[p[0]] < sent[from]) {
				from, to = p[0], p[1]
			}
		}
		if from == nil {
			return
		}
		msg := from.Take(0)
		sent[from]++
		prev := to.Parked()
		if to.Write(msg) != nil {
			return
		}
		if err := to.WaitReaction(prev); err != nil {
			w.inconcl = true
			return
		}
	}
}

func (w *c16World) waitClosed(e *wire.End) {
	if e.Link == nil {
		return
	}
	if ch := peering.VerifLinkClosed(e.Link); ch != nil {
		select {
		case <-ch:
		case <-time.After(wire.Budget):
			w.inconcl = true
		}
	}
}

// closeEnds closes the relay side of the chosen ends and waits until the
// routers have closed their links.
func (w *c16World) closeEnds(cc *c16Conn, a, b bool) {
	if a {
		cc.conn.A.Close()
		cc.closed[0] = true
	}
	if b {
		cc.conn.B.Close()
		cc.closed[1] = true
	}
	if a {
		w.waitClosed(cc.conn.A)
	}
	if b {
		w.waitClosed(cc.conn.B)
	}
}

func (w *c16World) live() []*c16Conn {
	var out []*c16Conn
	for _, cc := range w.conns {
		if (cc.conn.A.Link != nil && !cc.closed[0]) || (cc.conn.B.Link != nil && !cc.closed[1]) {
			out = append(out, cc)
		}
	}
	return out
}

func (w *c16World) check(where string) {
	c := w.c
	if w.inconcl {
		return
	}
	for i, n := range w.nodes {
		// Links the rig knows to be established and not closing at node i.
		var L []peering.Link
		for _, cc := range w.conns {
			if cc.a == i && cc.conn.A.Link != nil && !cc.closed[0] && !cc.conn.A.Link.IsClosing() {
				L = append(L, cc.conn.A.Link)
			}
			if cc.b == i && cc.conn.B.Link != nil && !cc.closed[1] && !cc.conn.B.Link.IsClosing() {
				L = append(L, cc.conn.B.Link)
			}
		}
		ctx := fmt.Sprintf("%s at n%d (events: %s)", where, i, strings.Join(w.ops, "; "))
		reg := n.Peer.GetLinks()
		inReg := map[peering.Link]bool{}
		for _, l := range reg {
			inReg[l] = true
			if l.IsClosing() {
				c.Fatalf("%s: the registry returns a closing link to %s", ctx, l.Peer())
			}
		}
		peers := map[netip.Addr]int{}
		labels := map[m.SwitchLabel]bool{}
		for _, l := range L {
			if !inReg[l] {
				c.Fatalf("%s: an established, not-closing link to %s is missing from the registry (registry has %d links)", ctx, l.Peer(), len(reg))
			}
			if got := n.Peer.GetLink(l.Peer()); got != l {
				c.Fatalf("%s: established link to %s cannot be found by its peer address (lookup gives %v)", ctx, l.Peer(), got)
			}
			if got := n.Peer.GetLinkByLabel(l.SwitchLabel()); got != l {
				c.Fatalf("%s: established link to %s cannot be found by its switch label %d (lookup gives %v)", ctx, l.Peer(), l.SwitchLabel(), got)
			}
			if l.SwitchLabel() == 0 {
				c.Fatalf("%s: established link to %s has switch label 0", ctx, l.Peer())
			}
			if labels[l.SwitchLabel()] {
				c.Fatalf("%s: two live links share switch label %d", ctx, l.SwitchLabel())
			}
			labels[l.SwitchLabel()] = true
			peers[l.Peer()]++
			if peers[l.Peer()] > 1 {
				c.Fatalf("%s: two live links to the same peer %s (only one can be found by the peer address)", ctx, l.Peer())
			}
		}
		// No lookup may hand out a link that is closing or closed.
		for _, cc := range w.conns {
			for side, e := range []*wire.End{cc.conn.A, cc.conn.B} {
				if [2]int{cc.a, cc.b}[side] != i || e.Link == nil {
					continue
				}
				if !(cc.closed[side] || e.Link.IsClosing()) || e.Link.SwitchLabel() == 0 {
					continue
				}
				if got := n.Peer.GetLinkByLabel(e.Link.SwitchLabel()); got != nil && got.IsClosing() {
					c.Fatalf("%s: the lookup by switch label %d returns a closing link to %s", ctx, e.Link.SwitchLabel(), got.Peer())
				}
			}
		}
		if len(reg) != len(L) {
			c.Fatalf("%s: registry holds %d links, %d are established and not closing", ctx, len(reg), len(L))
		}
		// Routing table.
		routePeers := map[netip.Addr]bool{}
		for _, e := range n.Rtr.Table().VerifEntries() {
			if e.Source == m.RouteSourcePeer {
				routePeers[e.DstIP] = true
			}
			if peers[e.NextHop] == 0 {
				c.Fatalf("%s: routing table has a route to %s via %s, which has no live link", ctx, e.DstIP, e.NextHop)
			}
		}
		for p := range peers {
			if !routePeers[p] {
				c.Fatalf("%s: no direct-peer route for the live link to %s", ctx, p)
			}
		}
		for p := range routePeers {
			if peers[p] == 0 {
				c.Fatalf("%s: direct-peer route to %s without a live link", ctx, p)
			}
		}
	}
}

func c16Completed(cc *c16Conn) int {
	n := 0
	if cc.conn.A.Err == nil && cc.conn.A.Link != nil {
		n++
	}
	if cc.conn.B.Err == nil && cc.conn.B.Link != nil {
		n++
	}
	return n
}

func TestC16(t *testing.T) {
	// Group identities by derived label so that collisions can be requested.
	pool := ids.Routable()
	byLabel := map[m.SwitchLabel][]*ids.Identity{}
	for _, id := range pool {
		if l, ok := m.DeriveSwitchLabelFromIP(id.Addr.IP); ok {
			byLabel[l] = append(byLabel[l], id)
		}
	}
	var collide [][]*ids.Identity
	var keys []int
	for l := range byLabel {
		keys = append(keys, int(l))
	}
	sort.Ints(keys)
	for _, l := range keys {
		if g := byLabel[m.SwitchLabel(l)]; len(g) >= 2 {
			collide = append(collide, g)
		}
	}
	core.Run(t, c16Opts, func(c *core.Case) {
		w := &c16World{c: c}
		n := c.Int("nodes", 2, 5)
		vn := vnet.New()
		used := map[int]bool{}
		var chosen []*ids.Identity
		// One case in four: a router with a privacy address and privacy-address
		// peers inside its /16 (the only privacy addresses it keeps routes for).
		// Two of them derive no switch label, two derive the same one, so that the
		// fallbacks of the label assignment are taken.
		privacyCluster := c.Weighted("cluster", 3, 1) == 1
		if privacyCluster {
			chosen = append(chosen, ids.Group("privacy16-hub")[0])
			special := append(append([]*ids.Identity(nil), ids.Group("privacy16-collide")...), ids.Group("privacy16-nolabel")...)
			plain := ids.Group("privacy16")
			for len(chosen) < n+1 {
				var id *ids.Identity
				if c.Chance("cluster.special", 2, 3) {
					id = special[c.Pick("cluster.sp", len(special))]
				} else {
					id = plain[c.Pick("cluster.pl", len(plain))]
				}
				if !used[id.Index] {
					used[id.Index] = true
					chosen = append(chosen, id)
				}
			}
			c.Class("privacy-address-cluster")
		} else if len(collide) > 0 && c.Bool("label.collision") {
			g := collide[c.Pick("collide.group", len(collide))]
			chosen = append(chosen, g[0], g[1])
			used[g[0].Index], used[g[1].Index] = true, true
		}
		for len(chosen) < n+1 {
			id := pool[c.Pick("id", len(pool))]
			if !used[id.Index] {
				used[id.Index] = true
				chosen = append(chosen, id)
			}
		}
		// One plain case in five: the last router has a privacy address. The
		// others keep no routes for it, so registering a link to it fails after
		// the handshake succeeded; both ends must be clean afterwards.
		if !privacyCluster && c.Chance("stranger.privacy", 1, 5) {
			pl := ids.Group("privacy16")
			chosen[n-1] = pl[c.Pick("stranger.id", len(pl))]
			c.Class("router-with-an-unroutable-privacy-address")
		}
		// With a label collision the two colliding routers are both peers of node 0:
		// put them at positions 1 and 2 (or 0 and 1 for n == 2... then they peer with each other).
		if len(collide) > 0 && n >= 3 && !privacyCluster {
			chosen[0], chosen[2] = chosen[2], chosen[0]
		}
		for i := 0; i < n; i++ {
			var st config.Store
			if c.Chance("node.lite", 1, 4) {
				st.Router.Lite = true
			}
			nd, err := vn.AddNode(fmt.Sprintf("n%d", i), chosen[i], vnet.NodeOpts{Store: st})
			if err != nil {
				c.Fatalf("node: %v", err)
			}
			w.nodes = append(w.nodes, nd)
		}
		defer func() {
			for _, cc := range w.conns {
				cc.conn.Teardown()
			}
		}()

		events := c.Int("events", 1, 12)
		for ev := 0; ev < events && !w.inconcl; ev++ {
			pair := func() (int, int) {
				a := c.Int("ev.a", 0, n-1)
				b := c.Int("ev.b", 0, n-2)
				if b >= a {
					b++
				}
				if privacyCluster && c.Chance("ev.hub", 2, 3) {
					// towards / from the hub, so that it collects several peers
					if a == 0 {
						return a, b
					}
					if c.Bool("ev.hub.dials") {
						return 0, a
					}
					return a, 0
				}
				return a, b
			}
			live := w.live()
			kind := c.Weighted("event", 5, 4, 2, 2, 3, 3, 2, 2, 3, 3, 3, 3, 2, 3, 3)
			if (kind == 11 || kind == 14) && len(live) == 0 {
				kind = 0
			}
			if kind >= 4 && kind <= 7 && len(live) == 0 {
				kind = 0
			}
			// Link objects that were closed earlier (their reader, writer and the
			// manager may each call Close on them again at any later time).
			type staleEnd struct {
				cc   *c16Conn
				side int
			}
			var stale []staleEnd
			for _, cc := range w.conns {
				if cc.conn.A.Link != nil && cc.closed[0] {
					stale = append(stale, staleEnd{cc, 0})
				}
				if cc.conn.B.Link != nil && cc.closed[1] {
					stale = append(stale, staleEnd{cc, 1})
				}
			}
			if kind == 8 && len(stale) == 0 {
				kind = 0
			}
			lockstep := c.Chance("lockstep", 2, 3)
			switch kind {
			case 0:
				a, b := pair()
				w.log("connect n%d->n%d", a, b)
				cc := &c16Conn{conn: wire.Dial(w.nodes[a], w.nodes[b]), a: a, b: b}
				w.conns = append(w.conns, cc)
				w.drive([]*c16Conn{cc}, true, -1)
			case 1:
				a, b := pair()
				w.log("cross-connect n%d<->n%d (lockstep=%v)", a, b, lockstep)
				w.cross = true
				c1 := &c16Conn{conn: wire.Dial(w.nodes[a], w.nodes[b]), a: a, b: b}
				time.Sleep(3 * time.Millisecond)
				c2 := &c16Conn{conn: wire.Dial(w.nodes[b], w.nodes[a]), a: b, b: a}
				w.conns = append(w.conns, c1, c2)
				w.drive([]*c16Conn{c1, c2}, lockstep, -1)
				c.Class(fmt.Sprintf("cross-connect/lockstep=%v/completed-sides=%d", lockstep, c16Completed(c1)+c16Completed(c2)))
			case 2:
				a, b := pair()
				w.log("double dial n%d->n%d twice (lockstep=%v)", a, b, lockstep)
				w.cross = true
				c1 := &c16Conn{conn: wire.Dial(w.nodes[a], w.nodes[b]), a: a, b: b}
				time.Sleep(3 * time.Millisecond)
				c2 := &c16Conn{conn: wire.Dial(w.nodes[a], w.nodes[b]), a: a, b: b}
				w.conns = append(w.conns, c1, c2)
				w.drive([]*c16Conn{c1, c2}, lockstep, -1)
			case 3:
				a, b := pair()
				k := c.Int("fail.at", 0, 5)
				w.log("connect n%d->n%d failing at message %d", a, b, k)
				cc := &c16Conn{conn: wire.Dial(w.nodes[a], w.nodes[b]), a: a, b: b}
				w.conns = append(w.conns, cc)
				w.drive([]*c16Conn{cc}, true, k)
			case 4, 5: // local close at one end, EOF reaches the other
				cc := live[c.Pick("close.which", len(live))]
				side := c.Pick("close.side", 2)
				e := cc.conn.A
				if side == 1 {
					e = cc.conn.B
				}
				if e.Link == nil {
					e = cc.conn.Other(e)
					side = 1 - side
				}
				if c.Bool("close.by-manager") {
					// ... by peer address through the peering manager (the dashboard's "close").
					w.log("local close of link n%d->n%d at side %d through the manager", cc.a, cc.b, side)
					w.nodes[[2]int{cc.a, cc.b}[side]].Peer.CloseLink(e.Link.Peer())
					c.Class("close-through-the-manager")
				} else {
					w.log("local close of link n%d->n%d at side %d", cc.a, cc.b, side)
					e.Link.Close(nil)
				}
				w.waitClosed(e)
				cc.closed[side] = true
				w.closeEnds(cc, side == 1, side == 0) // EOF to the other side
				if w.cross {
					w.closedAfterCross = true
				}
			case 6: // connection breaks for both
				cc := live[c.Pick("break.which", len(live))]
				w.log("connection n%d->n%d breaks", cc.a, cc.b)
				w.closeEnds(cc, true, true)
				if w.cross {
					w.closedAfterCross = true
				}
			case 11: // a local close that takes its time (its log callback is slow) while the peer drops the connection and dials again
				cc := live[c.Pick("slow.which", len(live))]
				side := c.Pick("slow.side", 2)
				e := cc.conn.A
				local, remote := cc.a, cc.b
				if side == 1 {
					e = cc.conn.B
					local, remote = cc.b, cc.a
				}
				if e.Link == nil || cc.closed[side] {
					break
				}
				hold := time.Duration(c.Int("slow.ms", 10, 60)) * time.Millisecond
				w.log("slow local close of link n%d->n%d at side %d (%s in its log callback); n%d drops the connection and dials again meanwhile", cc.a, cc.b, side, hold, remote)
				closed := make(chan struct{})
				go func() {
					defer close(closed)
					e.Link.Close(func() { time.Sleep(hold) })
				}()
				time.Sleep(time.Millisecond)
				w.closeEnds(cc, side == 1, side == 0) // the remote end goes away
				// Who dials meanwhile: the remote router again or, in half of the
				// cases, a third router without a link to the closing side -
				// preferably one that derives the same switch label as the router
				// whose link is closing (the label is still registered until the
				// close has finished).
				dialler := remote
				if c.Bool("slow.third") {
					rl, rok := m.DeriveSwitchLabelFromIP(w.nodes[remote].IP())
					var cand, same []int
					for k := range w.nodes {
						if k == local || k == remote || w.nodes[local].Peer.GetLink(w.nodes[k].IP()) != nil {
							continue
						}
						cand = append(cand, k)
						if kl, ok := m.DeriveSwitchLabelFromIP(w.nodes[k].IP()); ok && rok && kl == rl {
							same = append(same, k)
						}
					}
					if len(same) > 0 {
						dialler = same[c.Pick("slow.third.same", len(same))]
						c.Class("slow-close-while-a-router-with-the-same-derived-label-links")
					} else if len(cand) > 0 {
						dialler = cand[c.Pick("slow.third.any", len(cand))]
						c.Class("slow-close-while-a-third-router-links")
					}
					if dialler != remote {
						w.log("n%d dials n%d while that close is under way", dialler, local)
					}
				}
				nc := &c16Conn{conn: wire.Dial(w.nodes[dialler], w.nodes[local]), a: dialler, b: local}
				w.conns = append(w.conns, nc)
				w.drive([]*c16Conn{nc}, true, -1)
				select {
				case <-closed:
				case <-time.After(wire.Budget):
					w.inconcl = true
				}
				w.waitClosed(e)
				cc.closed[side] = true
				w.closeEnds(cc, side == 0, side == 1)
				c.Class("slow-close-with-reconnect")
			case 14: // a local close whose reader goroutine is slow to notice: the peer has dialled again by the time it does
				cc := live[c.Pick("stale.which", len(live))]
				side := c.Pick("stale.side", 2)
				e := cc.conn.A
				local, remote := cc.a, cc.b
				if side == 1 {
					e = cc.conn.B
					local, remote = cc.b, cc.a
				}
				if e.Link == nil || cc.closed[side] {
					break
				}
				w.log("local close of link n%d->n%d at side %d; its reader gets to see the closed connection only after n%d and n%d are linked again", cc.a, cc.b, side, remote, local)
				e.HoldReadError()
				if c.Bool("stale.by-manager") {
					w.nodes[local].Peer.CloseLink(e.Link.Peer())
				} else {
					e.Link.Close(nil)
				}
				w.waitClosed(e)
				cc.closed[side] = true
				w.closeEnds(cc, side == 1, side == 0) // EOF to the other side
				from, to := remote, local
				if c.Bool("stale.local-dials") {
					from, to = local, remote
				}
				nc := &c16Conn{conn: wire.Dial(w.nodes[from], w.nodes[to]), a: from, b: to}
				w.conns = append(w.conns, nc)
				w.drive([]*c16Conn{nc}, true, -1)
				e.ReleaseReadError()
				// The old reader runs on now; real time only bounds the wait for it.
				time.Sleep(time.Duration(c.Int("stale.settle-ms", 5, 25)) * time.Millisecond)
				c.Class("reader-of-a-closed-link-notices-after-the-reconnect")
			case 13: // a link setup during which one side closes that very link through its manager, at a generated point of the setup
				a, b := pair()
				side := c.Pick("sched.side", 2)
				local, remote := a, b
				if side == 1 {
					local, remote = b, a
				}
				nd := w.nodes[local]
				at := core.OneOf(c, "sched.point", "", "instance.RoutingTable", "instance.State", "instance.Identity", "instance.Config", "instance.Peering", "instance.Switch")
				skip := c.Int("sched.call", 0, 6)
				if at == "" {
					skip = c.Int("sched.any-call", 0, 40)
				}
				w.log("n%d dials n%d; n%d closes its link to n%d at call %d (%s) its modules make during the setup", a, b, local, remote, skip, at)
				if at == "" {
					nd.Gate.Arm(skip)
				} else {
					nd.Gate.ArmAt(at, skip)
				}
				stop := make(chan struct{})
				helper := make(chan string, 1)
				go func() {
					point := ""
					for held := false; !held; {
						held = nd.Gate.WaitReached(5 * time.Millisecond)
						select {
						case <-stop:
							nd.Gate.Release()
							helper <- point
							return
						default:
						}
					}
					point = nd.Gate.Point
					closed := make(chan struct{})
					go func() { defer close(closed); nd.Peer.CloseLink(w.nodes[remote].IP()) }()
					select {
					case <-closed:
					case <-time.After(100 * time.Millisecond): // waits for a lock the held call keeps: fine
					}
					nd.Gate.Release()
					<-closed
					helper <- point
				}()
				nc := &c16Conn{conn: wire.Dial(w.nodes[a], w.nodes[b]), a: a, b: b}
				w.conns = append(w.conns, nc)
				w.drive([]*c16Conn{nc}, true, -1)
				close(stop)
				point := <-helper
				if point != "" {
					w.log("  held at %s while the link was closed", point)
					c.Class("local-close-at-a-schedule-point-of-the-setup")
					// The close (if it found a link) ends the connection for both ends.
					time.Sleep(2 * time.Millisecond)
					for i, e := range []*wire.End{nc.conn.A, nc.conn.B} {
						if e.Link != nil && e.Link.IsClosing() {
							w.waitClosed(e)
							nc.closed[i] = true
						}
					}
					if nc.closed[0] != nc.closed[1] {
						w.closeEnds(nc, true, true)
					}
				}
			case 12: // a lot of gossip: 70 routes into the /12 of a router that is not linked yet, learned over a live peer
				done := false
				for i, nd := range w.nodes {
					links := nd.Peer.GetLinks()
					if len(links) == 0 || done {
						continue
					}
					via := links[c.Pick("flood.via", len(links))]
					j := c.Int("flood.target", 0, n-2)
					if j >= i {
						j++
					}
					if nd.Peer.GetLink(w.nodes[j].IP()) != nil {
						continue
					}
					base := w.nodes[j].IP().As16()
					added := 0
					for k := 0; k < 70; k++ {
						a := base
						a[2], a[3], a[14], a[15] = byte(k), 0xee, byte(k>>8), byte(k+1)
						dst := netip.AddrFrom16(a)
						e := m.RoutingTableEntry{DstIP: dst, NextHop: via.Peer(), Source: m.RouteSourceGossip, Expires: time.Now().Add(time.Hour)}
						e.Path.Hops = []m.SwitchHop{
							{Router: nd.IP(), ForwardLabel: via.SwitchLabel(), Delay: 5},
							{Router: via.Peer(), ForwardLabel: 7, ReturnLabel: 8, Delay: 5},
							{Router: dst, ReturnLabel: 9},
						}
						if ok, _ := nd.Rtr.Table().AddRoute(e); ok {
							added++
						}
					}
					w.log("gossip flood at n%d: %d routes into the /12 of n%d via peer %s", i, added, j, via.Peer())
					done = true
				}
				if done {
					c.Class("gossip-flood-into-a-future-peers-prefix")
				}
			case 10: // gossip arrives: a route to one live peer that leads over another live peer
				done := false
				for i, nd := range w.nodes {
					links := nd.Peer.GetLinks()
					if len(links) < 2 || done {
						continue
					}
					x := c.Pick("gossip.dst", len(links))
					y := (x + 1 + c.Pick("gossip.via", len(links)-1)) % len(links)
					dst, via := links[x], links[y]
					e := m.RoutingTableEntry{DstIP: dst.Peer(), NextHop: via.Peer(), Source: m.RouteSourceGossip, Expires: time.Now().Add(time.Hour)}
					e.Path.Hops = []m.SwitchHop{
						{Router: nd.IP(), ForwardLabel: via.SwitchLabel(), Delay: 5},
						{Router: via.Peer(), ForwardLabel: m.SwitchLabel(c.Int("gossip.f", 1, 120)), ReturnLabel: m.SwitchLabel(c.Int("gossip.r", 1, 120)), Delay: 5},
						{Router: dst.Peer(), ReturnLabel: m.SwitchLabel(c.Int("gossip.rl", 1, 120))},
					}
					added, err := nd.Rtr.Table().AddRoute(e)
					w.log("gossip at n%d: route to peer %s via peer %s (added=%v err=%v)", i, dst.Peer(), via.Peer(), added, err)
					done = true
				}
				if done {
					c.Class("gossip-route-to-a-live-peer")
				}
			case 9: // three overlapping setups between two routers, directions and schedule generated
				a, b := pair()
				w.cross = true
				var cs []*c16Conn
				dirs := ""
				for k := 0; k < 3; k++ {
					x, y := a, b
					if c.Bool("triple.reverse") {
						x, y = b, a
					}
					dirs += fmt.Sprintf(" n%d->n%d", x, y)
					cc := &c16Conn{conn: wire.Dial(w.nodes[x], w.nodes[y]), a: x, b: y}
					cs = append(cs, cc)
					w.conns = append(w.conns, cc)
					time.Sleep(2 * time.Millisecond)
				}
				w.log("three overlapping setups:%s (lockstep=%v)", dirs, lockstep)
				w.drive(cs, lockstep, -1)
				c.Class("three-overlapping-setups")
			case 8: // Close called once more on a link object that is closed already
				se := stale[c.Pick("stale.which", len(stale))]
				e := se.cc.conn.A
				if se.side == 1 {
					e = se.cc.conn.B
				}
				w.log("repeated Close on the closed link object n%d->n%d side %d", se.cc.a, se.cc.b, se.side)
				e.Link.Close(nil)
				c.Class("repeated-close-of-closed-link")
			default: // half-open: only one side notices
				cc := live[c.Pick("half.which", len(live))]
				side := c.Pick("half.side", 2)
				w.log("connection n%d->n%d breaks for side %d only", cc.a, cc.b, side)
				w.closeEnds(cc, side == 0, side == 1)
			}
			time.Sleep(time.Duration(c.Int("settle.us", 0, 300)) * time.Microsecond)
			w.check(fmt.Sprintf("after event %d", ev+1))
		}
		// Last act in one case of three: a router shuts its peering down (all its
		// links are closed by the manager) while another setup with it is under way.
		// Nothing is asserted about the registry afterwards; the run must neither
		// crash nor show a data race.
		if !w.inconcl && c.Chance("shutdown", 1, 3) {
			i := c.Int("shutdown.node", 0, n-1)
			j := c.Int("shutdown.peer", 0, n-2)
			if j >= i {
				j++
			}
			a, b := i, j
			if c.Bool("shutdown.dials") {
				a, b = j, i
			}
			w.log("n%d shuts its peering down while a setup n%d->n%d is under way", i, a, b)
			cc := &c16Conn{conn: wire.Dial(w.nodes[a], w.nodes[b]), a: a, b: b}
			w.conns = append(w.conns, cc)
			stopped := make(chan struct{})
			delay := time.Duration(c.Int("shutdown.delay.us", 0, 8000)) * time.Microsecond
			go func() {
				defer close(stopped)
				time.Sleep(delay)
				_ = w.nodes[i].Peer.Stop()
			}()
			w.drive([]*c16Conn{cc}, true, -1)
			select {
			case <-stopped:
			case <-time.After(wire.Budget):
				c.Fatalf("Peering.Stop of n%d did not return (events: %s)", i, strings.Join(w.ops, "; "))
			}
			c.Class("shutdown-during-setup")
		}
		if w.inconcl {
			c.Class("inconclusive-time-budget")
		}
		var kinds []string
		for _, o := range w.ops {
			if !strings.HasPrefix(o, " ") {
				kinds = append(kinds, strings.Fields(o)[0])
			}
		}
		nt := (w.cross || w.failed) && w.closedAfterCross
		c.Eval(strings.Join(kinds, ","), nt, func() any { return map[string]any{"nodes": n, "events": w.ops} })
		if w.cross {
			c.Class("with-cross-connect-or-double-dial")
		}
	})
}
