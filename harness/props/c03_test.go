package props

// C03 — Replay protection: every authenticated frame is accepted at most once.
//
// Generator: delivery histories built constructively from a sender's sequence
// 1..n: in-order deliveries, jumps ahead (gaps, weighted to 63..66), immediate
// and delayed re-deliveries of accepted numbers, late deliveries of skipped
// numbers at chosen distances from the newest (weighted to the window edge).
// Levels: (a) SequenceHandler/TimeSequenceHandler directly, (b) real
// Frame.Seal/Unseal between two sessions (regular, priority and signed
// classes), (c) real LinkFrame.Seal/Unseal.
// Oracle: reference model {accepted set, newest}: a number in the set must be
// rejected; a new number that is newer than, or at most 64 behind, the newest
// must be accepted; older ones may go either way.

import (
	"fmt"
	"sort"
	"strings"
	"testing"
	"time"

	"github.com/mycoria/mycoria/frame"
	"github.com/mycoria/mycoria/peering"
	"github.com/mycoria/mycoria/state"

	"verif/core"
	"verif/ids"
	"verif/vnet"
)

var c03Opts = core.Opts{ID: "C03", Quick: 20000, Thorough: 600000}

type c03Model struct {
	accepted map[uint32]bool
	newest   uint32
	any      bool
	// statistics for the non-trivial rule
	dupAfterLarger bool
	edge           bool
}

func newC03Model() *c03Model { return &c03Model{accepted: map[uint32]bool{}} }

// verdict: +1 must accept, -1 must reject, 0 either.
func (mo *c03Model) verdict(s uint32) int {
	if mo.accepted[s] {
		if s < mo.newest {
			mo.dupAfterLarger = true
		}
		return -1
	}
	if !mo.any || s > mo.newest {
		return 1
	}
	d := mo.newest - s
	if d >= 60 && d <= 68 {
		mo.edge = true
	}
	if d <= 64 {
		return 1
	}
	return 0
}

func (mo *c03Model) accept(s uint32) {
	mo.accepted[s] = true
	if !mo.any || s > mo.newest {
		mo.newest = s
	}
	mo.any = true
}

// c03History draws a delivery history over sender numbers 1..max.
func c03History(c *core.Case, maxLen int, maxNum uint32) []uint32 {
	n := c.Int("len", 1, maxLen)
	var hist []uint32
	var delivered []uint32
	var skipped []uint32
	next := uint32(1)
	newest := uint32(0)
	for i := 0; i < n; i++ {
		kind := c.Weighted("op", 30, 12, 12, 14, 20, 12)
		var s uint32
		switch kind {
		case 0: // next in order
			s = next
			next++
		case 1: // jump ahead leaving a gap
			k := uint32(core.OneOf(c, "jump", 2, 3, 5, 62, 63, 64, 65, 66, 67, 70, 130))
			if c.Bool("jump.rand") {
				k = uint32(c.Int("jump.k", 1, 140))
			}
			for j := uint32(0); j+1 < k; j++ {
				skipped = append(skipped, next+j)
			}
			s = next + k - 1
			next = s + 1
		case 2: // immediate duplicate
			if len(hist) == 0 {
				s = next
				next++
			} else {
				s = hist[len(hist)-1]
			}
		case 3: // delayed duplicate of something delivered before
			if len(delivered) == 0 {
				s = next
				next++
			} else if c.Bool("dup.recent") {
				back := c.Int("dup.back", 1, 8)
				if back > len(delivered) {
					back = len(delivered)
				}
				s = delivered[len(delivered)-back]
			} else {
				s = delivered[c.Pick("dup.any", len(delivered))]
			}
		case 4: // late delivery of a skipped number at a chosen distance
			if newest > 1 {
				d := uint32(core.OneOf(c, "late.d", 1, 2, 3, 60, 62, 63, 64, 65, 66, 68, 100))
				if c.Bool("late.rand") {
					d = uint32(c.Int("late.dist", 1, 140))
				}
				if d >= newest {
					d = newest - 1
				}
				s = newest - d
			} else {
				s = next
				next++
			}
		default: // late delivery of some skipped number
			if len(skipped) > 0 {
				s = skipped[c.Pick("skipped", len(skipped))]
			} else {
				s = next
				next++
			}
		}
		if s < 1 {
			s = 1
		}
		if s > maxNum {
			s = maxNum
		}
		if next > maxNum {
			next = maxNum
		}
		hist = append(hist, s)
		delivered = append(delivered, s)
		if s > newest {
			newest = s
		}
	}
	return hist
}

func c03HistString(h []uint32) string {
	parts := make([]string, len(h))
	for i, s := range h {
		parts[i] = fmt.Sprint(s)
	}
	return strings.Join(parts, ",")
}

// c03Run feeds a history to check (returns nil on accept) and compares with the model.
func c03Run(c *core.Case, level string, hist []uint32, check func(s uint32) error, forge ...func(s uint32) error) {
	mo := newC03Model()
	c.Note("%s history: %s", level, c03HistString(hist))
	maxNum := uint32(0)
	for _, s := range hist {
		maxNum = max(maxNum, s)
	}
	forged := 0
	for i, s := range hist {
		// Between deliveries an attacker may present damaged copies of any frame
		// the sender produced (also of frames not delivered yet): they are
		// rejected and leave the window as it was, so that the verdicts below stay
		// those of the reference model.
		if len(forge) > 0 && c.Mode() != "dfs" && c.Chance("forge", 1, 6) {
			f := s
			if c.Bool("forge.other") {
				f = uint32(c.Uniform("forge.num", 1, int(maxNum)))
			}
			if err := forge[0](f); err == nil {
				c.Fatalf("%s: a damaged copy of frame %d unsealed (history %s)", level, f, c03HistString(hist[:i]))
			}
			forged++
		}
		v := mo.verdict(s)
		err := check(s)
		switch {
		case err == nil && v < 0:
			c.Fatalf("%s: delivery #%d of number %d accepted a second time (history %s)", level, i+1, s, c03HistString(hist[:i+1]))
		case err != nil && v > 0:
			c.Fatalf("%s: delivery #%d of number %d rejected (%v) although it is new and within the window of newest=%d (history %s)", level, i+1, s, err, mo.newest, c03HistString(hist[:i+1]))
		}
		if err == nil {
			mo.accept(s)
		}
	}
	nt := mo.dupAfterLarger || mo.edge
	c.Eval(level+":"+c03HistString(hist), nt, func() any {
		return map[string]any{"level": level, "history": c03HistString(hist)}
	})
	if mo.dupAfterLarger {
		c.Class(level + "/dup-after-larger")
	}
	if mo.edge {
		c.Class(level + "/window-edge-60..68")
	}
	if forged > 0 {
		c.Class(level + "/with-damaged-copies")
	}
}

// c03Damage returns a copy of a sealed frame with one bit flipped in the
// sequence field, the nonce or the protected body (positions given by the caller).
func c03Damage(c *core.Case, data []byte, seqAt, seqLen, bodyFrom int) []byte {
	cp := append([]byte(nil), data...)
	var i int
	if c.Bool("forge.seq") {
		i = seqAt + c.Uniform("forge.seq.byte", 0, seqLen-1)
	} else {
		i = c.Uniform("forge.body.byte", bodyFrom, len(cp)-1)
	}
	cp[i] ^= 1 << c.Uniform("forge.bit", 0, 7)
	return cp
}

func TestC03Handler(t *testing.T) {
	core.Run(t, c03Opts, func(c *core.Case) {
		hist := c03History(c, 120, 2000)
		sh := new(state.SequenceHandler)
		c03Run(c, "handler", hist, sh.Check)
	})
}

func TestC03HandlerExhaustive(t *testing.T) {
	alphabets := [][]uint32{{1, 2, 3, 4, 5}, {1, 2, 3, 66, 67}, {1, 2, 65, 66, 130}, {3, 67, 68, 131, 132}}
	maxLen := 6
	if core.Thorough() {
		maxLen = 8
	}
	for ai, alpha := range alphabets {
		alpha := alpha
		t.Run(fmt.Sprintf("alphabet%d", ai), func(t *testing.T) {
			core.Exhaust(t, c03Opts, 3_000_000, func(c *core.Case) {
				n := c.Int("len", 1, maxLen)
				hist := make([]uint32, n)
				for i := range hist {
					hist[i] = alpha[c.Pick("s", len(alpha))]
				}
				sh := new(state.SequenceHandler)
				c03Run(c, "handler-exh", hist, sh.Check)
			})
		})
	}
}

// c03Time: signed frames are accepted only in strictly increasing timestamp order.
func TestC03TimeHandler(t *testing.T) {
	core.Run(t, c03Opts, func(c *core.Case) {
		n := c.Int("len", 1, 60)
		base := time.UnixMilli(1_700_000_000_000)
		th := state.NewTimeSequenceHandler(0)
		var latest time.Time
		var anyAcc bool
		var hist []string
		nt := false
		for i := 0; i < n; i++ {
			off := c.Int("ms", 0, 40)
			ts := base.Add(time.Duration(off) * time.Millisecond)
			err := th.Check(ts)
			wantAccept := !anyAcc || ts.After(latest)
			hist = append(hist, fmt.Sprint(off))
			if anyAcc && !ts.After(latest) {
				nt = true
			}
			if (err == nil) != wantAccept {
				c.Fatalf("time handler: timestamp +%dms accepted=%v, want %v (latest accepted +%v; history %s)", off, err == nil, wantAccept, latest.Sub(base), strings.Join(hist, ","))
			}
			if err == nil {
				latest, anyAcc = ts, true
			}
		}
		c.Eval("time:"+strings.Join(hist, ","), nt, func() any { return map[string]any{"level": "time-handler", "offsets_ms": strings.Join(hist, ",")} })
	})
}

// c03Pair is a keyed pair of sessions (a seals, b unseals).
type c03Pair struct {
	pa, pb   *vnet.Party
	sAB, sBA *state.Session
	builder  *frame.Builder
}

func c03NewPair(c *core.Case) *c03Pair {
	ia, ib := 0, 8
	if c.Mode() != "dfs" {
		ia, ib = c.Pick("idA", 8), 8+c.Pick("idB", 8)
	}
	p := &c03Pair{pa: vnet.NewParty(ids.Get(ia)), pb: vnet.NewParty(ids.Get(ib)), builder: frame.NewFrameBuilder()}
	p.sAB = p.pa.SessionWith(p.pb)
	p.sBA = p.pb.SessionWith(p.pa)
	if err := vnet.KeyExchange(p.sAB, p.sBA); err != nil {
		c.Fatalf("key exchange: %v", err)
	}
	return p
}

// seal seals n frames of one class from a to b and returns their bytes.
func (p *c03Pair) seal(c *core.Case, mt frame.MessageType, n int) (frames [][]byte) {
	for i := 0; i < n; i++ {
		f, err := p.builder.NewFrameV1(p.pa.ID.Addr.IP, p.pb.ID.Addr.IP, mt, nil, []byte(fmt.Sprintf("payload-%04d", i)), nil)
		if err != nil {
			c.Fatalf("new frame: %v", err)
		}
		if err := f.Seal(p.sAB); err != nil {
			c.Fatalf("seal: %v", err)
		}
		data, _ := f.FrameDataWithMargins(0, 0)
		frames = append(frames, append([]byte(nil), data...))
		f.ReturnToPool()
	}
	return frames
}

// c03Frames seals n frames of one class from a to b and returns their bytes.
func c03Frames(c *core.Case, mt frame.MessageType, n int) (recv *state.Session, frames [][]byte, builder *frame.Builder) {
	p := c03NewPair(c)
	return p.sBA, p.seal(c, mt, n), p.builder
}

func c03UnsealCopy(b *frame.Builder, data []byte, s *state.Session) error {
	ps := b.GetPooledSlice(len(data))
	copy(ps, data)
	f, err := b.ParseFrame(ps[:len(data)], ps, 0)
	if err != nil {
		return fmt.Errorf("parse: %w", err)
	}
	defer f.ReturnToPool()
	return f.Unseal(s)
}

func c03FrameLevel(c *core.Case, hist []uint32, mt frame.MessageType, level string) {
	maxNum := uint32(0)
	for _, s := range hist {
		if s > maxNum {
			maxNum = s
		}
	}
	p := c03NewPair(c)
	recv, b := p.sBA, p.builder
	frames := p.seal(c, mt, int(maxNum))
	c03Run(c, level, hist, func(s uint32) error {
		return c03UnsealCopy(b, frames[s-1], recv)
	}, func(s uint32) error {
		// sequence number: bytes 8..11 of the frame header; body from the message on
		return c03UnsealCopy(b, c03Damage(c, frames[s-1], 8, 4, 51), recv)
	})
	if c.Mode() == "dfs" || !c.Chance("rekey", 1, 3) {
		return
	}
	// The two routers set up new keys on the same session objects (as a hello
	// exchange does): numbering and window start afresh, the property holds for
	// the new frames as it did for the old, and no frame of the old keys unseals.
	kx := vnet.KeyExchangeAsHello
	if c.Bool("rekey.in-place-on-both-sides") {
		kx = vnet.KeyExchange
	}
	if err := kx(p.sAB, p.sBA); err != nil {
		c.Fatalf("second key exchange: %v", err)
	}
	hist2 := c03History(c, 40, 120)
	max2 := uint32(0)
	for _, s := range hist2 {
		max2 = max(max2, s)
	}
	frames2 := p.seal(c, mt, int(max2))
	c03Run(c, level+"-after-rekey", hist2, func(s uint32) error {
		return c03UnsealCopy(b, frames2[s-1], recv)
	}, func(s uint32) error {
		if c.Bool("forge.old-epoch") && len(frames) > 0 {
			return c03UnsealCopy(b, frames[int(s-1)%len(frames)], recv)
		}
		return c03UnsealCopy(b, c03Damage(c, frames2[s-1], 8, 4, 51), recv)
	})
	c.Class(level + "/re-keyed-in-place")
}

func TestC03Frames(t *testing.T) {
	core.Run(t, core.Opts{ID: "C03", Quick: 5000, Thorough: 150000}, func(c *core.Case) {
		switch c.Weighted("class", 3, 3, 2) {
		case 0:
			hist := c03History(c, 90, 220)
			c03FrameLevel(c, hist, frame.NetworkTraffic, "frame-regular")
		case 1:
			hist := c03History(c, 90, 220)
			c03FrameLevel(c, hist, core.OneOf(c, "prio.type", frame.RouterCtrl, frame.SessionCtrl), "frame-priority")
		default:
			// Signed frames: timestamps are strictly increasing per seal, so the
			// index order is the timestamp order. Accept iff newer than all accepted.
			n := c.Int("signed.n", 1, 12)
			mt := core.OneOf(c, "signed.type", frame.RouterPing, frame.RouterHopPing, frame.RouterHopPingDeprecated)
			pr := c03NewPair(c)
			recv, frames, b := pr.sBA, pr.seal(c, mt, n), pr.builder
			if c.Chance("signed.explicit-times", 1, 3) {
				// Signing times chosen by the harness: strictly increasing with the
				// index, spread around the next multiple of 2^32 milliseconds (the
				// 64-bit time field must be compared as a whole).
				pr = c03NewPair(c)
				recv, b = pr.sBA, pr.builder
				base := time.UnixMilli(((time.Now().UnixMilli() >> 32) + 1) << 32)
				offs := make([]int, n)
				for i := range offs {
					offs[i] = c.Int("signed.off", -4000, 4000)
				}
				sort.Ints(offs)
				frames = frames[:0]
				for i := 0; i < n; i++ {
					f, err := pr.builder.NewFrameV1(pr.pa.ID.Addr.IP, pr.pb.ID.Addr.IP, mt, nil, []byte(fmt.Sprintf("payload-%04d", i)), nil)
					if err != nil {
						c.Fatalf("new frame: %v", err)
					}
					c01Sign(f, pr.pa.ID.Addr.PrivateKey, base.Add(time.Duration(offs[i]+i)*time.Millisecond))
					data, _ := f.FrameDataWithMargins(0, 0)
					frames = append(frames, append([]byte(nil), data...))
					f.ReturnToPool()
				}
				c.Class("frame-signed/times-around-a-2^32-ms-boundary")
			}
			steps := c.Int("signed.len", 1, 24)
			best := -1
			var hist []string
			nt := false
			for i := 0; i < steps; i++ {
				if c.Chance("signed.rekey", 1, 8) {
					// The session gets new end-to-end keys in between (a completed key
					// setup, or keys dropped after a "no keys" error): the order of signed
					// frames is a matter of the session, not of its encryption keys.
					// Either on the session object or through the state manager, as the
					// error ping handler does it; the router looks the session up by
					// address for every frame, so does the harness from then on.
					viaState := c.Bool("signed.rekey.via-state-manager")
					var enc *state.EncryptionSession
					if !c.Bool("signed.rekey.drop") {
						if _, eb, err := vnet.EncPair(); err == nil {
							enc = eb
						}
					}
					if viaState {
						if err := pr.pb.St.SetEncryptionSession(pr.pa.ID.Addr.IP, enc); err != nil {
							c.Fatalf("set encryption session: %v", err)
						}
						if recv = pr.pb.St.GetSession(pr.pa.ID.Addr.IP); recv == nil {
							c.Fatalf("session gone after its encryption keys were replaced")
						}
						c.Class("frame-signed/keys-replaced-through-the-state-manager")
					} else {
						recv.SetEncryptionSession(enc)
					}
					hist = append(hist, "rekey")
					c.Class("frame-signed/session-rekeyed-in-between")
				}
				k := c.Pick("signed.k", n)
				err := c03UnsealCopy(b, frames[k], recv)
				hist = append(hist, fmt.Sprint(k))
				want := k > best
				if !want {
					nt = true
				}
				if (err == nil) != want {
					c.Fatalf("signed frame #%d accepted=%v (%v), want %v; newest accepted #%d; history %s", k, err == nil, err, want, best, strings.Join(hist, ","))
				}
				if err == nil {
					best = k
				}
			}
			c.Eval("signed:"+strings.Join(hist, ","), nt, func() any {
				return map[string]any{"level": "frame-signed", "type": mt.String(), "delivery_order_by_seal_index": strings.Join(hist, ",")}
			})
		}
	})
}

func TestC03FramesExhaustive(t *testing.T) {
	maxLen := 6
	if core.Thorough() {
		maxLen = 7
	}
	for _, mt := range []frame.MessageType{frame.NetworkTraffic, frame.RouterCtrl} {
		mt := mt
		t.Run(mt.String(), func(t *testing.T) {
			core.Exhaust(t, c03Opts, 500_000, func(c *core.Case) {
				n := c.Int("len", 1, maxLen)
				hist := make([]uint32, n)
				for i := range hist {
					hist[i] = uint32(1 + c.Pick("s", 4))
				}
				c03FrameLevel(c, hist, mt, "frame-exh-"+mt.String())
			})
		})
	}
}

func TestC03LinkFrames(t *testing.T) {
	core.Run(t, core.Opts{ID: "C03", Quick: 5000, Thorough: 150000}, func(c *core.Case) {
		hist := c03History(c, 100, 260)
		maxNum := uint32(0)
		for _, s := range hist {
			if s > maxNum {
				maxNum = s
			}
		}
		ea, eb, err := vnet.EncPair()
		if err != nil {
			c.Fatalf("enc pair: %v", err)
		}
		// One case in three: the link sessions are derived from the end-to-end
		// sessions of the two routers, as the link setup does, and during the
		// history the routers set up new end-to-end keys (a hello exchange over
		// that very link: the responder re-keys its session in place, the
		// initiator too or on a fresh object). The link keeps its keys, so its
		// window must not notice.
		var pa, pb *state.EncryptionSession
		rekeyAt := map[int]bool{}
		if c.Chance("derived", 1, 3) {
			pa, pb = state.NewEncryptionSession(), state.NewEncryptionSession()
			kx1, t1, err := pa.InitKeyClientStart()
			if err != nil {
				c.Fatalf("kx: %v", err)
			}
			kx2, t2, err := pb.InitKeyServer(kx1, t1)
			if err != nil {
				c.Fatalf("kx: %v", err)
			}
			if err := pa.InitKeyClientComplete(kx2, t2); err != nil {
				c.Fatalf("kx: %v", err)
			}
			la, err1 := pa.DeriveSessionFromKX(true, "link layer crypt")
			lb, err2 := pb.DeriveSessionFromKX(false, "link layer crypt")
			if err1 != nil || err2 != nil {
				c.Fatalf("derive link sessions: %v %v", err1, err2)
			}
			ea, eb = la, lb
			for k, n := 0, c.Int("derived.rekeys", 1, 3); k < n; k++ {
				rekeyAt[c.Int("derived.rekey.at", 0, len(hist))] = true
			}
			c.Class("link-frame/link-sessions-derived-from-end-to-end-sessions")
		}
		deliveries := 0
		beforeDelivery := func() {
			if pa == nil || !rekeyAt[deliveries] {
				deliveries++
				return
			}
			deliveries++
			cl, sv := pa, pb
			if c.Bool("derived.rekey.receiver-initiates") {
				cl, sv = pb, pa
			}
			if c.Bool("derived.rekey.initiator-on-a-fresh-object") {
				cl = state.NewEncryptionSession()
			}
			kx1, t1, err := cl.InitKeyClientStart()
			if err != nil {
				c.Fatalf("kx: %v", err)
			}
			kx2, t2, err := sv.InitKeyServer(kx1, t1)
			if err != nil {
				c.Fatalf("kx: %v", err)
			}
			if err := cl.InitKeyClientComplete(kx2, t2); err != nil {
				c.Fatalf("kx: %v", err)
			}
			c.Class("link-frame/end-to-end-keys-set-up-again-during-the-history")
		}
		var frames [][]byte
		for i := uint32(0); i < maxNum; i++ {
			payload := []byte(fmt.Sprintf("link-payload-%05d", i))
			buf := make([]byte, peering.FrameOffset+len(payload)+peering.FrameOverhead)
			copy(buf[peering.FrameOffset:], payload)
			if err := peering.LinkFrame(buf).Seal(ea); err != nil {
				c.Fatalf("link seal: %v", err)
			}
			frames = append(frames, buf)
		}
		c03Run(c, "link-frame", hist, func(s uint32) error {
			beforeDelivery()
			cp := append([]byte(nil), frames[s-1]...)
			return peering.LinkFrame(cp).Unseal(eb)
		}, func(s uint32) error {
			// link frame header: length (2), version/flags (2), sequence number (4), nonce rest
			return peering.LinkFrame(c03Damage(c, frames[s-1], 4, 4, peering.FrameOffset)).Unseal(eb)
		})
	})
}
