package props

// C05 — Link layer: post-handshake frames are encrypted, authenticated, once-only.
//
// Generator: an established real link pair (honest handshake over the relay);
// a batch of 1..40 frames of generated types and sizes with marker payloads is
// handed to one link end; the relay captures the resulting link frames and a
// fault script rewrites the captured stream: bit flips (length prefix, header
// rest, ciphertext, MAC), truncated frame, stream cut mid-frame, immediate and
// delayed duplicates, reordering, drops, injected random bytes, injected
// foreign link frames (sealed under another link's keys), injected tiny frames
// (declared length 4..27). Then sentinel frames.
// Oracle: every frame arriving on the receiver's frame-handler channel is
// byte-identical to one that was sent and arrives once; frames left intact and
// not behind a framing desynchronisation arrive (subject to the 64-frame
// window) unless the link closes; after the script sentinels arrive within the
// code's own bound (100 bad frames x 64 KiB) or the link is closing; no worker
// panic; no marker on the wire.

import (
	"bytes"
	"encoding/binary"
	"fmt"
	"sort"
	"strings"
	"testing"
	"time"

	"github.com/mycoria/mycoria/frame"
	"github.com/mycoria/mycoria/mgr"
	"github.com/mycoria/mycoria/peering"
	"github.com/mycoria/mycoria/state"

	"verif/core"
	"verif/ids"
	"verif/vnet"
	"verif/wire"
)

var c05Opts = core.Opts{ID: "C05", Quick: 400, Thorough: 16000}

type c05Chunk struct {
	data   []byte
	orig   int  // index of the original link frame, -1 for injected data
	intact bool // unmodified original frame
	desync bool // breaks framing for everything after it
	what   string
}

func c05Drain(ch chan frame.Frame) [][]byte {
	var out [][]byte
	for {
		select {
		case f := <-ch:
			d, _ := f.FrameDataWithMargins(0, 0)
			out = append(out, append([]byte(nil), d...))
			f.ReturnToPool()
		default:
			return out
		}
	}
}

// c05Pair sets up an established link pair.
func c05Pair(c *core.Case, ia, ib int) (a, b *vnet.Node, r *c04Run) {
	pool := ids.Routable()
	vn := vnet.New()
	a, _ = vn.AddNode("A", pool[ia], vnet.NodeOpts{})
	b, _ = vn.AddNode("B", pool[ib], vnet.NodeOpts{})
	r = c04Handshake(c, a, b, c04Fault{kind: "none"}, nil, true)
	return
}

func TestC05(t *testing.T) {
	pool := ids.Routable()
	core.Run(t, c05Opts, func(c *core.Case) {
		ia := c.Pick("idA", len(pool))
		ib := c.Pick("idB", len(pool)-1)
		if ib >= ia {
			ib++
		}
		na, nb, r := c05Pair(c, ia, ib)
		defer r.conn.Teardown()
		if r.inconcl {
			c.Class("inconclusive-time-budget")
			return
		}
		if r.conn.A.Err != nil || r.conn.B.Err != nil {
			c.Fatalf("honest handshake failed: %v / %v", r.conn.A.Err, r.conn.B.Err)
		}
		// A second, unrelated link pair supplies foreign link frames.
		_, _, foreign := c05Pair(c, (ia+3)%len(pool), (ia+4)%len(pool))
		defer foreign.conn.Teardown()

		// Direction.
		sendEnd, recvEnd, sender, receiver := r.conn.A, r.conn.B, na, nb
		if c.Bool("direction.b-to-a") {
			sendEnd, recvEnd, sender, receiver = r.conn.B, r.conn.A, nb, na
		}
		alerts := mgr.NewAlertMgr(receiver.Peer.Manager())
		alertsS := mgr.NewAlertMgr(sender.Peer.Manager())
		handshakeBytes := len(sendEnd.Written)

		// One case in six: a long-lived link - the sender's link sequence number is
		// about to wrap, so the batch crosses the wrap and the key rollover.
		nearWrap := false
		var earlier [][]byte // link frames of an earlier key epoch of this link
		if enc := peering.VerifLinkEncryption(sendEnd.Link); enc != nil && c.Chance("near-wrap", 1, 6) {
			back := uint32(c.Int("near-wrap.back", 2, 30))
			h := state.EncryptionSessionTestHelper{EncryptionSession: enc}
			if c.Bool("near-wrap.second") {
				// The link is older still: it has crossed a wrap before (both ends
				// rolled their keys over on undisturbed traffic) and stands before
				// its second one. The frames of the first crossing are kept: the
				// attacker recorded them.
				h.ReglSetOut(0xFFFF_FFFF - 2)
				for i := 0; i < 8; i++ {
					f, err := sender.Builder.NewFrameV1(sender.IP(), receiver.IP(), frame.NetworkTraffic, nil, []byte(fmt.Sprintf("first key epoch crossing, frame %d", i)), nil)
					if err != nil {
						c.Fatalf("frame: %v", err)
					}
					_ = sendEnd.Link.Send(f)
					if sendEnd.WaitParked(1) != nil {
						c.Class("inconclusive-time-budget")
						return
					}
					lf := sendEnd.Take(0)
					earlier = append(earlier, lf)
					if err := recvEnd.Write(lf); err != nil {
						c.Class("inconclusive-time-budget")
						return
					}
					select {
					case fr := <-receiver.SwitchIn:
						fr.ReturnToPool()
					case <-time.After(wire.Budget):
						c.Fatalf("undisturbed traffic across the first wrap of the link sequence number: frame %d of 8 (number %d) did not arrive", i, binary.BigEndian.Uint32(lf[4:8]))
					}
				}
				handshakeBytes = len(sendEnd.Written)
				c.Class("link-before-its-second-wrap")
			}
			h.ReglSetOut(0xFFFF_FFFF - back)
			nearWrap = true
			c.Class("link-sequence-wraps-in-batch")
		}

		// The batch.
		n := c.Int("batch", 1, 40)
		if nearWrap {
			n = max(n, 35)
		}
		// One case in five is a long batch of small frames, so that copies can be
		// replayed from around and beyond the far edge of the 64-frame window.
		longKind := c.Weighted("batch.long", 8, 2, 1)
		long, veryLong := longKind >= 1, longKind == 2
		if long {
			n = c.Int("batch.long.n", 66, 150)
		}
		if veryLong {
			// ... or of several hundred frames (a link that has been up for a
			// while), with a copy of one of the first frames coming back after
			// more than 250 others.
			n = c.Int("batch.verylong.n", 270, 340)
		}
		sent := map[string]int{} // frame bytes -> index
		var markers [][]byte
		lastSize := 0
		mkFrame := func(i int, size int, mt frame.MessageType) frame.Frame {
			// Frames carry switch blocks of every legal size now and then.
			var sw []byte
			if i < 1000 && c.Chance("sw", 1, 4) {
				sw = c.Bytes("sw.bytes", core.OneOf(c, "sw.len", 1, 2, 10, 127, 128, 200, 254, 255))
			}
			if size < 0 {
				// The size at which the link frame fills a pooled buffer exactly.
				fit, ok := exactFit(sender.Builder, sender.IP(), receiver.IP(), mt, sw, 0, -size)
				if !ok {
					fit = 100
				}
				size = fit
				c.Class("link-frame-fills-a-buffer-exactly")
			}
			lastSize = size
			payload := make([]byte, size)
			marker := []byte(fmt.Sprintf("<<C05-MARKER-%04d-%016x>>", i, c.Uint64("marker")))
			for k := range payload {
				payload[k] = marker[k%len(marker)]
			}
			if size >= len(marker) {
				markers = append(markers, marker)
			}
			f, err := sender.Builder.NewFrameV1(sender.IP(), receiver.IP(), mt, sw, payload, nil)
			if err != nil {
				c.Fatalf("frame: %v", err)
			}
			f.SetSequenceNum(uint32(i + 1)) // make equal-sized frames distinct
			if i < 1000 && c.Chance("clone", 1, 6) {
				// What the link gets is a clone that was changed after cloning (as a
				// router does with a frame it sends on several links); what must
				// arrive is the frame with that change.
				ttl := uint8(c.Int("clone.ttl", 1, 250))
				cl := f.Clone()
				f.SetTTL(ttl)
				d, _ := f.FrameDataWithMargins(0, 0)
				sent[string(d)] = i
				f.ReturnToPool()
				cl.SetTTL(ttl)
				c.Class("batch-with-a-clone-changed-after-cloning")
				return cl
			}
			d, _ := f.FrameDataWithMargins(0, 0)
			sent[string(d)] = i
			return f
		}
		for i := 0; i < n; i++ {
			size := core.OneOf(c, "size", 1, 20, 40, 100, 400, 520, 1400, 1500, 5000, 9000, 10000)
			if c.Bool("size.rand") {
				size = c.Int("size.v", 1, 2000)
			}
			if long {
				size = min(size, 120)
			} else if c.Chance("size.fit", 1, 8) {
				size = -linkTiers[c.Pick("size.fit.tier", len(linkTiers))]
			}
			mt := core.OneOf(c, "type", frame.NetworkTraffic, frame.NetworkTraffic, frame.SessionData, frame.RouterPing, frame.RouterCtrl, frame.MessageType(77))
			f := mkFrame(i, size, mt)
			c.Note("batch frame %d: type=%d payload=%d", i, mt, lastSize)
			if mt.IsPriority() {
				_ = sendEnd.Link.SendPriority(f)
			} else {
				_ = sendEnd.Link.Send(f)
			}
			// One at a time, so that link frame i on the wire is frame i of the
			// batch (the writer would otherwise prefer the priority queue).
			if err := sendEnd.WaitParked(i + 1); err != nil {
				// Nothing was written. If the link is up and writes a later frame of
				// the same queue, this one was dropped by the writer (frames of one
				// queue are written in order).
				if !sendEnd.Link.IsClosing() {
					pf, perr := sender.Builder.NewFrameV1(sender.IP(), receiver.IP(), mt, nil, []byte("probe behind a silent frame"), nil)
					if perr == nil {
						if mt.IsPriority() {
							_ = sendEnd.Link.SendPriority(pf)
						} else {
							_ = sendEnd.Link.Send(pf)
						}
						if sendEnd.WaitParked(i+1) == nil && len(sendEnd.Peek(i)) < 200 && lastSize > 400 {
							c.Fatalf("batch frame %d (type %d, message of %d bytes) was handed to the link and never written, although the link is up and wrote the frame handed over after it", i, mt, lastSize)
						}
					}
				}
				c.Class("inconclusive-time-budget")
				return
			}
		}
		var L [][]byte
		for i := 0; i < n; i++ {
			L = append(L, sendEnd.Take(0))
		}

		// The fault script.
		var stream []c05Chunk
		for i := range L {
			stream = append(stream, c05Chunk{data: L[i], orig: i, intact: true, what: fmt.Sprintf("frame%d", i)})
		}
		nFaults := c.Int("faults", 0, 6)
		var faultKinds []string
		cut := false
		if long {
			// A copy of an early frame, replayed 60..70 frames later.
			at := c.Int("far.at", 0, n-66)
			d := c.Uniform("far.d", 60, 70)
			if veryLong {
				at = c.Int("veryfar.at", 0, n-266)
				d = c.Uniform("veryfar.d", 250, 264)
				if c.Bool("veryfar.to-the-end") {
					d = n
				}
			}
			x := stream[at]
			x.intact = false
			x.what = fmt.Sprintf("dup-far+%d(%s)", d, x.what)
			to := min(at+1+d, len(stream))
			stream = append(stream[:to], append([]c05Chunk{x}, stream[to:]...)...)
			faultKinds = append(faultKinds, "dup-far")
		}
		for k := 0; k < nFaults && len(stream) > 0; k++ {
			pos := c.Pick("fault.at", len(stream))
			ch := stream[pos]
			kind := core.OneOf(c, "fault.kind", "flip-ciphertext", "flip-mac", "flip-header", "flip-length", "truncate", "cut", "dup-now", "dup-later", "reorder", "drop", "inject-random", "inject-foreign", "inject-tiny", "inject-reflected")
			if (ch.orig < 0 || len(ch.data) < 30) && strings.HasPrefix(kind, "flip") {
				// Injected garbage and remnants of a truncation are not link frames
				// with a header, ciphertext and MAC to aim at.
				kind = "drop"
			}
			faultKinds = append(faultKinds, kind)
			insert := func(at int, x c05Chunk) {
				stream = append(stream[:at], append([]c05Chunk{x}, stream[at:]...)...)
			}
			switch kind {
			case "flip-ciphertext", "flip-mac", "flip-header", "flip-length":
				mut := append([]byte(nil), ch.data...)
				var i int
				switch kind {
				case "flip-ciphertext":
					if len(mut) <= 28 {
						i = 12
					} else {
						i = c.Uniform("flip.ct", 12, len(mut)-17)
					}
				case "flip-mac":
					i = c.Uniform("flip.mac", len(mut)-16, len(mut)-1)
				case "flip-header":
					i = c.Uniform("flip.hdr", 2, 11)
				default:
					i = c.Uniform("flip.len", 0, 1)
				}
				mut[i] ^= 1 << c.Uniform("flip.bit", 0, 7)
				stream[pos] = c05Chunk{data: mut, orig: ch.orig, what: kind + "(" + ch.what + ")", desync: ch.desync || kind == "flip-length"}
			case "truncate":
				if len(ch.data) < 2 {
					stream = append(stream[:pos], stream[pos+1:]...)
					break
				}
				j := c.Uniform("trunc.at", 1, len(ch.data)-1)
				stream[pos] = c05Chunk{data: ch.data[:j], orig: ch.orig, what: "truncate(" + ch.what + ")", desync: true}
			case "cut":
				j := c.Uniform("cut.at", 0, len(ch.data)-1)
				stream = append(stream[:pos], c05Chunk{data: ch.data[:j], orig: ch.orig, what: "cut-here(" + ch.what + ")", desync: true})
				cut = true
			case "dup-now":
				x := ch
				x.intact = false
				x.what = "dup(" + ch.what + ")"
				insert(pos+1, x)
			case "dup-later":
				x := ch
				x.intact = false
				x.what = "dup(" + ch.what + ")"
				insert(pos+1+c.Int("dup.after", 0, len(stream)-pos-1), x)
			case "reorder":
				to := c.Pick("reorder.to", len(stream))
				stream = append(stream[:pos], stream[pos+1:]...)
				insert(min(to, len(stream)), ch)
			case "drop":
				stream = append(stream[:pos], stream[pos+1:]...)
			case "inject-random":
				data := c.Bytes("inject.bytes", c.Int("inject.n", 1, 200))
				insert(pos, c05Chunk{data: data, orig: -1, what: fmt.Sprintf("random(%d)", len(data)), desync: true})
			case "inject-foreign":
				ff, err := sender.Builder.NewFrameV1(sender.IP(), receiver.IP(), frame.NetworkTraffic, nil, []byte("foreign link frame payload"), nil)
				if err == nil {
					_ = foreign.conn.A.Link.Send(ff)
					if foreign.conn.A.WaitParked(1) == nil {
						insert(pos, c05Chunk{data: foreign.conn.A.Take(0), orig: -1, what: "foreign-link-frame"})
					}
				}
			case "inject-reflected":
				// A link frame the receiver itself sent on this link, turned around.
				rf, err := receiver.Builder.NewFrameV1(receiver.IP(), sender.IP(), frame.NetworkTraffic, nil, []byte("frame of the receiver, reflected back at it"), nil)
				if err == nil {
					_ = recvEnd.Link.Send(rf)
					if recvEnd.WaitParked(1) == nil {
						insert(pos, c05Chunk{data: recvEnd.Take(0), orig: -1, what: "reflected-own-link-frame"})
					}
				}
			case "inject-tiny":
				l := c.Int("tiny.len", 4, 27)
				if c.Bool("tiny.edge") {
					l = core.OneOf(c, "tiny.len.e", 4, 5, 11, 12, 13, 27)
				}
				data := c.Bytes("tiny.bytes", l)
				binary.BigEndian.PutUint16(data, uint16(l))
				insert(pos, c05Chunk{data: data, orig: -1, what: fmt.Sprintf("tiny(%d)", l)})
			}
			if cut {
				break
			}
		}

		// Recorded frames of the link's previous key epoch come back.
		if len(earlier) > 0 && !cut {
			for k, n := 0, c.Int("earlier.replays", 0, 3); k < n && len(stream) > 0; k++ {
				x := c05Chunk{data: earlier[c.Pick("earlier.frame", len(earlier))], orig: -1, what: "frame-of-an-earlier-key-epoch"}
				at := c.Pick("earlier.at", len(stream)+1)
				stream = append(stream[:at], append([]c05Chunk{x}, stream[at:]...)...)
			}
		}

		// Expected deliveries (reference model over the rewritten stream).
		// Frames sealed after the sender's sequence number wrapped belong to the
		// next key epoch (only with a link placed near the wrap). The receiver
		// moves to that epoch when it authenticates a low-numbered frame of it
		// while its own newest number is within 255 of the wrap; frames of the old
		// epoch that arrive later cannot be opened any more, frames of the new
		// epoch that arrive too early cannot be opened yet: both "not at all".
		epochOf := func(orig int) int {
			for i := 1; i <= orig; i++ {
				if binary.BigEndian.Uint32(L[i][4:8]) < binary.BigEndian.Uint32(L[i-1][4:8]) {
					return 1
				}
			}
			return 0
		}
		rxEpoch := 0
		mo := newC03Model()
		desynced := false
		consecutiveBad := 0
		closedByErrors := false
		mustArrive := map[int]bool{}
		var desc []string
		for _, ch := range stream {
			desc = append(desc, ch.what)
			if desynced || closedByErrors {
				continue
			}
			if ch.desync {
				desynced = true
				continue
			}
			ok := false
			if ch.orig >= 0 && bytes.Equal(ch.data, L[ch.orig]) && nearWrap && epochOf(ch.orig) != rxEpoch {
				seq := binary.BigEndian.Uint32(ch.data[4:8])
				if epochOf(ch.orig) > rxEpoch && mo.any && mo.newest >= 0xFFFF_FF00 && seq <= 255 {
					// first frame of the next epoch the receiver can recognise: rollover
					rxEpoch = 1
					mo = newC03Model()
					mo.accept(seq)
					mustArrive[ch.orig] = true
					ok = true
				}
				// otherwise: a frame of an epoch the receiver is not in - lost, by design
			} else if ch.orig >= 0 && bytes.Equal(ch.data, L[ch.orig]) {
				seq := binary.BigEndian.Uint32(ch.data[4:8])
				switch mo.verdict(seq) {
				case 1:
					mo.accept(seq)
					mustArrive[ch.orig] = true
					ok = true
				case 0:
					// Older than the window: either verdict. Treat as possibly accepted.
					ok = true
					mo.accept(seq)
				}
			}
			if ok {
				consecutiveBad = 0
			} else {
				consecutiveBad++
				if consecutiveBad >= 100 {
					closedByErrors = true
				}
			}
		}
		c.Note("direction %s->%s batch=%d stream=%v", sender.Name, receiver.Name, n, desc)

		// Replay the rewritten stream into the receiver.
		var all []byte
		for _, ch := range stream {
			all = append(all, ch.data...)
		}
		// The stream reaches the receiver in segments: whole (one write), or cut at
		// generated offsets - also inside a length prefix or a header.
		var writeErr error
		nseg := 0
		if c.Chance("segmented", 1, 3) && len(all) > 2 {
			var cuts []int
			off := 0
			bounds := []int{}
			for _, ch := range stream {
				bounds = append(bounds, off)
				off += len(ch.data)
			}
			for k, n := 0, c.Int("segments", 1, 8); k < n; k++ {
				b := bounds[c.Pick("seg.frame", len(bounds))] + core.OneOf(c, "seg.delta", 1, 1, 0, 2, 3, 13, 14)
				if c.Chance("seg.any", 1, 4) {
					b = c.Uniform("seg.at", 1, len(all)-1)
				}
				if b > 0 && b < len(all) {
					cuts = append(cuts, b)
				}
			}
			sort.Ints(cuts)
			prev := 0
			for _, b := range append(cuts, len(all)) {
				if b <= prev {
					continue
				}
				if writeErr = recvEnd.Write(all[prev:b]); writeErr != nil {
					break
				}
				prev = b
				nseg++
			}
			c.Class("stream-segmented")
		} else {
			writeErr = recvEnd.Write(all)
		}
		_ = nseg
		if cut {
			recvEnd.Close()
		}

		// Barrier: sentinels.
		got := [][]byte{}
		sentinelSeen := false
		closing := func() bool { return recvEnd.Link.IsClosing() }
		if !cut && writeErr == nil {
			budgetBytes := 100 * 66000
			sentBytes := 0
			reverseTraffic := c.Bool("reverse-traffic")
			if reverseTraffic {
				c.Class("reverse-traffic-during-recovery")
			}
			for s := 0; !sentinelSeen && !closing() && sentBytes < budgetBytes+200000; s++ {
				if reverseTraffic {
					// The link is used in the other direction as well while the receiver
					// works through what the attacker left behind.
					if rf, err := receiver.Builder.NewFrameV1(receiver.IP(), sender.IP(), frame.NetworkTraffic, nil, []byte("traffic in the other direction"), nil); err == nil {
						_ = recvEnd.Link.Send(rf)
						if recvEnd.WaitParked(1) == nil {
							_ = recvEnd.Take(0)
						}
					}
				}
				size := 64
				if desynced {
					size = 9000
				}
				f := mkFrame(1000+s, size, frame.NetworkTraffic)
				_ = sendEnd.Link.Send(f)
				if err := sendEnd.WaitParked(1); err != nil {
					break
				}
				lf := sendEnd.Take(0)
				sentBytes += len(lf)
				if err := recvEnd.Write(lf); err != nil {
					break
				}
				// Give the sequential reader a moment to hand the frame over.
				wait := wire.Budget
				if nearWrap && s > 0 {
					wait = 200 * time.Millisecond
				}
				deadline := time.After(wait)
				if !desynced {
					select {
					case fr := <-receiver.SwitchIn:
						d, _ := fr.FrameDataWithMargins(0, 0)
						got = append(got, append([]byte(nil), d...))
						fr.ReturnToPool()
					case <-peering.VerifLinkClosed(recvEnd.Link):
					case <-deadline:
						if nearWrap && s < 130 {
							// The faults may have cost the receiver every frame of the old key
							// epoch's last stretch: then it cannot recognise the rollover, each
							// further frame is one more failed frame, and the link has to close
							// after a hundred of them. Keep sending.
							break
						}
						// In sync, intact, link up - and nothing arrives: stop here, the oracle below reports it.
						sentBytes = budgetBytes + 1_000_000
					}
				}
				got = append(got, c05Drain(receiver.SwitchIn)...)
				for _, g := range got {
					if idx, ok := sent[string(g)]; ok && idx >= 1000 {
						sentinelSeen = true
					}
				}
			}
			if desynced && !sentinelSeen && !closing() {
				// Everything is written; the reader lags by at most one frame.
				select {
				case fr := <-receiver.SwitchIn:
					d, _ := fr.FrameDataWithMargins(0, 0)
					got = append(got, append([]byte(nil), d...))
					fr.ReturnToPool()
				case <-peering.VerifLinkClosed(recvEnd.Link):
				case <-time.After(wire.Budget):
				}
				got = append(got, c05Drain(receiver.SwitchIn)...)
				for _, g := range got {
					if idx, ok := sent[string(g)]; ok && idx >= 1000 {
						sentinelSeen = true
					}
				}
			}
		} else {
			select {
			case <-peering.VerifLinkClosed(recvEnd.Link):
			case <-time.After(wire.Budget):
			}
		}
		got = append(got, c05Drain(receiver.SwitchIn)...)

		// Oracle.
		if up := alerts.Export(); len(up.Alerts) > 0 {
			c.Fatalf("a worker of the receiving router panicked: %s: %s (stream %v)", up.Alerts[0].Name, up.Alerts[0].Message, desc)
		}
		if up := alertsS.Export(); len(up.Alerts) > 0 {
			c.Fatalf("a worker of the sending router panicked: %s", up.Alerts[0].Message)
		}
		delivered := map[int]int{}
		for _, g := range got {
			idx, ok := sent[string(g)]
			if !ok {
				c.Fatalf("a frame that was never sent arrived at the frame handler (%d bytes, type %d) (stream %v)", len(g), g[4], desc)
			}
			delivered[idx]++
			if delivered[idx] > 1 {
				c.Fatalf("frame %d was delivered twice (stream %v)", idx, desc)
			}
		}
		if !closing() && !cut {
			for idx := range mustArrive {
				if delivered[idx] == 0 {
					c.Fatalf("frame %d was left intact and in sync, the link is still up, but it was not delivered (stream %v)", idx, desc)
				}
			}
			if !sentinelSeen {
				c.Fatalf("after the fault script no sentinel frame arrives although %d bytes of intact frames were sent and the link is not closing (stream %v)", 100*66000, desc)
			}
		}
		wireBytes := sendEnd.Written[handshakeBytes:]
		for _, mk := range markers {
			if bytes.Contains(wireBytes, mk) {
				c.Fatalf("payload marker %q appears in clear on the wire", mk)
			}
		}
		hasDupOfDelivered := false
		for _, k := range faultKinds {
			if strings.HasPrefix(k, "dup") || k == "flip-ciphertext" || k == "flip-mac" || k == "flip-length" {
				hasDupOfDelivered = true
			}
		}
		bucket := "1-5"
		if n > 150 {
			bucket = "270-340"
		} else if n > 40 {
			bucket = "66-150"
		} else if n > 20 {
			bucket = "21-40"
		} else if n > 5 {
			bucket = "6-20"
		}
		c.Eval(fmt.Sprintf("%v|%s", faultKinds, bucket), hasDupOfDelivered, func() any {
			return map[string]any{"batch": n, "stream": desc, "delivered": len(got), "link_closing": closing(), "desynced": desynced}
		})
		if desynced {
			c.Class("framing-desynchronised")
		}
		if closing() {
			c.Class("link-closed")
		}
		for _, k := range faultKinds {
			c.Class("fault/" + k)
		}
	})
}
