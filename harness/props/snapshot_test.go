package props

// Snapshot of the state of a router that control-plane messages may change
// (used by C07, C08): encryption key fingerprints, MTU, routing table,
// connection states, stored public info and offline flags, pending hellos.

import (
	"encoding/hex"
	"encoding/json"
	"fmt"
	"net/netip"
	"sort"
	"strings"

	"github.com/mycoria/mycoria/m"
	"github.com/mycoria/mycoria/state"
	"github.com/mycoria/mycoria/storage"

	"verif/vnet"
)

type nodeSnap struct {
	Sessions map[string]string // remote -> "setup|inkey|outkey|mtu"
	Table    []string          // entries without expiry
	TableExp []string          // entries with expiry
	Conns    []string
	Stored   map[string]string // router -> "info-json|offline"
	Hello    map[string]string // remote -> "active|done"
}

func tableEntryString(e *m.RoutingTableEntry, withExpiry bool) string {
	var b strings.Builder
	fmt.Fprintf(&b, "dst=%s via=%s src=%d stub=%v hops=%d delay=%d path=", e.DstIP, e.NextHop, e.Source, e.Stub, e.Path.TotalHops, e.Path.TotalDelay)
	for _, h := range e.Path.Hops {
		fmt.Fprintf(&b, "[%s d%d f%d r%d]", h.Router, h.Delay, h.ForwardLabel, h.ReturnLabel)
	}
	if withExpiry {
		fmt.Fprintf(&b, " exp=%d", e.Expires.UnixNano())
	}
	return b.String()
}

func snapshotNode(n *vnet.Node, remotes []netip.Addr) nodeSnap {
	s := nodeSnap{Sessions: map[string]string{}, Stored: map[string]string{}, Hello: map[string]string{}}
	for _, r := range remotes {
		if r == n.IP() {
			continue
		}
		// Stored record first: GetSession creates a session object lazily, which
		// is not state the property protects.
		if sr, err := n.Store.GetRouter(r); err == nil && sr != nil {
			info, _ := json.Marshal(sr.PublicInfo)
			s.Stored[r.String()] = fmt.Sprintf("%s|offline=%v|universe=%s", info, sr.Offline, sr.Universe)
			sess := n.St.GetSession(r)
			if sess != nil {
				h := &state.EncryptionSessionTestHelper{EncryptionSession: sess.Encryption()}
				s.Sessions[r.String()] = fmt.Sprintf("setup=%v in=%s out=%s mtu=%d", sess.Encryption().IsSetUp(), hex.EncodeToString(h.InKey()), hex.EncodeToString(h.OutKey()), sess.TunMTU())
			}
		}
		active, done := n.Rtr.VerifHelloPending(r)
		s.Hello[r.String()] = fmt.Sprintf("active=%v done=%v", active, done)
	}
	for _, e := range n.Rtr.Table().VerifEntries() {
		e := e
		s.Table = append(s.Table, tableEntryString(&e, false))
		s.TableExp = append(s.TableExp, tableEntryString(&e, true))
	}
	for _, cs := range n.Rtr.VerifConnStates() {
		s.Conns = append(s.Conns, fmt.Sprintf("%s:%d<->%s:%d p%d in=%v status=%d", cs.LocalIP, cs.LocalPort, cs.RemoteIP, cs.RemotePort, cs.Protocol, cs.Inbound, cs.Status))
	}
	sort.Strings(s.Conns)
	return s
}

// diffSnap lists what differs between two snapshots (empty = equal).
// withExpiry also compares route expiry times.
func diffSnap(a, b nodeSnap, withExpiry bool) []string {
	var out []string
	cmpMap := func(name string, x, y map[string]string) {
		for k, v := range x {
			if y[k] != v {
				out = append(out, fmt.Sprintf("%s[%s]: %q -> %q", name, k, v, y[k]))
			}
		}
		for k, v := range y {
			if _, ok := x[k]; !ok {
				out = append(out, fmt.Sprintf("%s[%s]: <none> -> %q", name, k, v))
			}
		}
	}
	cmpMap("session", a.Sessions, b.Sessions)
	cmpMap("stored", a.Stored, b.Stored)
	cmpMap("hello", a.Hello, b.Hello)
	ta, tb := a.Table, b.Table
	if withExpiry {
		ta, tb = a.TableExp, b.TableExp
	}
	if strings.Join(ta, "\n") != strings.Join(tb, "\n") {
		in := map[string]int{}
		for _, e := range ta {
			in[e]++
		}
		for _, e := range tb {
			if in[e] == 0 {
				out = append(out, "table +"+e)
			} else {
				in[e]--
			}
		}
		for e, k := range in {
			for ; k > 0; k-- {
				out = append(out, "table -"+e)
			}
		}
		if len(out) == 0 {
			out = append(out, "table order changed")
		}
	}
	if strings.Join(a.Conns, "\n") != strings.Join(b.Conns, "\n") {
		out = append(out, fmt.Sprintf("connection states: %v -> %v", a.Conns, b.Conns))
	}
	return out
}

var _ = storage.ErrNotFound
