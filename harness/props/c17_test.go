package props

// C17 — Frame copies and buffer reuse are exact and isolated.
//
// Generator: stateful operation sequences on a set of live frames that share
// one Builder: new (sizes at the pool tier edges), parse (bytes of live or
// released frames copied into a pooled slice at the two offsets the link
// reader uses), clone, reply/replyTo, setAppendix (shrink, grow within and
// across tiers, up to and over the protocol limit), header/switch-block
// mutations, setRecvLink, release.
// Oracle: a byte-exact model of every live frame, computed from the operations
// (never read back from the frame, except the 3 random nonce bytes right after
// new/reply). After every step every live frame equals its model; recycled
// memory is clean (no marker of a released frame in or around a new frame, no
// stale receive link, no stale cached address).

import (
	"bytes"
	"encoding/binary"
	"fmt"
	"net/netip"
	"strings"
	"testing"
	"unsafe"

	"github.com/mycoria/mycoria/config"
	"github.com/mycoria/mycoria/frame"

	"verif/core"
	"verif/ids"
	"verif/vnet"
)

var c17Opts = core.Opts{ID: "C17", Quick: 2500, Thorough: 150000}

var c17Tiers = []int{600, 1600, 5100, 9600, 65675}

type c17Frame struct {
	f       frame.Frame
	id      int
	want    []byte // expected FrameDataWithMargins(0,0)
	link    frame.LinkAccessor
	off     int // data offset inside the pooled slice
	isClone bool
	swLen   int
	msgLen  int
	authLen int
}

func (m *c17Frame) apxStart() int { return 48 + 1 + m.swLen + 2 + m.msgLen + m.authLen }

type c17World struct {
	c        *core.Case
	b        *frame.Builder
	offset   int
	overhead int
	live     []*c17Frame
	released map[int][]byte // id -> last bytes of released frames
	relOrder []int
	nextID   int
	links    []frame.LinkAccessor
	ops      []string
	// pool reuse measurement
	relStructs map[uintptr]bool
	reuseHits  int
	reuseTries int
	// non-trivial flags
	bigCloneOrGrow  bool
	reuseAfterLink  bool
	malformed       bool
	lastReleasedHad bool
}

// Marker: 8 bytes, self-checking, carrying the frame id.
func c17Marker(id int) []byte {
	hi, lo := byte(id>>8), byte(id)
	return []byte{0xC5, 'M', hi, lo, ^hi, ^lo, 'K', 0x5C}
}

func c17Fill(n, id int) []byte {
	out := make([]byte, n)
	mk := c17Marker(id)
	for i := range out {
		out[i] = mk[i%8]
	}
	return out
}

// c17FindReleased scans data for a marker of a released frame.
func (w *c17World) findReleased(data []byte) (int, bool) {
	for i := 0; i+8 <= len(data); i++ {
		if data[i] == 0xC5 && data[i+1] == 'M' && data[i+6] == 'K' && data[i+7] == 0x5C &&
			data[i+2] == ^data[i+4] && data[i+3] == ^data[i+5] {
			id := int(data[i+2])<<8 | int(data[i+3])
			if _, ok := w.released[id]; ok {
				return id, true
			}
		}
	}
	return 0, false
}

func c17Addr(id int, which byte) netip.Addr {
	a := [16]byte{0xfd, 0x10, which, 0xC5, 'M', byte(id >> 8), byte(id), ^byte(id >> 8), ^byte(id), 'K', 0x5C, 0, 0, 0, 0, which}
	return netip.AddrFrom16(a)
}

func c17Expected(src, dst netip.Addr, mt frame.MessageType, sw, payload, apx []byte) []byte {
	auth := 64
	if mt.IsEncrypted() {
		auth = 16
	}
	out := make([]byte, 0, 51+len(sw)+len(payload)+auth+len(apx))
	out = append(out, 1, 32, 0, 0, byte(mt), 0, 0, 0)
	out = append(out, make([]byte, 8)...)
	s, d := src.As16(), dst.As16()
	out = append(out, s[:]...)
	out = append(out, d[:]...)
	out = append(out, byte(len(sw)))
	out = append(out, sw...)
	out = binary.BigEndian.AppendUint16(out, uint16(len(payload)))
	out = append(out, payload...)
	out = append(out, make([]byte, auth)...)
	out = append(out, apx...)
	return out
}

var c17Types = []frame.MessageType{frame.RouterPing, frame.RouterCtrl, frame.NetworkTraffic, frame.RouterHopPing, frame.SessionData, frame.MessageType(200)}

func (w *c17World) log(format string, args ...any) {
	s := fmt.Sprintf(format, args...)
	w.ops = append(w.ops, s)
	w.c.Note("%s", s)
}

// sizes draws (sw, payload, apx) lengths so that the required buffer size lands
// near a tier edge in a good share of cases.
func (w *c17World) sizes(mt frame.MessageType) (sw, payload, apx int) {
	c := w.c
	auth := 64
	if mt.IsEncrypted() {
		auth = 16
	}
	sw = core.OneOf(c, "sw", 0, 0, 1, 6, 40, 255)
	apx = core.OneOf(c, "apx", 0, 0, 0, 1, 64, 150, 700, 3000, 10000)
	fixed := w.offset + 51 + sw + auth + w.overhead
	if c.Chance("edge", 3, 5) {
		tier := c17Tiers[c.Pick("tier", 4)]
		target := tier + c.Int("delta", -3, 3)
		if apx > target-fixed-1 {
			apx = 0
		}
		payload = target - fixed - apx
	} else {
		payload = core.OneOf(c, "payload", 1, 2, 16, 60, 300, 520, 900, 1480, 4000, 9000, 10000)
	}
	if payload < 1 {
		payload = 1
	}
	if payload > 10000 {
		payload = 10000
	}
	return
}

func (w *c17World) structAddr(f frame.Frame) uintptr {
	if v1, ok := f.(*frame.FrameV1); ok {
		return uintptr(unsafe.Pointer(v1))
	}
	return 0
}

func (w *c17World) noteFresh(f frame.Frame) {
	w.reuseTries++
	w.c.Class("fresh-frames")
	if w.relStructs[w.structAddr(f)] {
		w.reuseHits++
		w.c.Class("fresh-frames-on-reused-struct")
		if w.lastReleasedHad {
			w.reuseAfterLink = true
		}
	}
}

// visible returns the widest view of the frame's memory the API gives:
// the frame with all margins up to the pooled slice bounds.
func (w *c17World) visible(m *c17Frame) []byte {
	n := len(m.want)
	for i := len(c17Tiers) - 1; i >= 0; i-- {
		over := c17Tiers[i] - m.off - n
		if over < 0 {
			continue
		}
		if data, err := m.f.FrameDataWithMargins(m.off, over); err == nil {
			return data
		}
	}
	data, err := m.f.FrameDataWithMargins(m.off, 0)
	if err != nil {
		// The frame was built (or parsed, or cloned) with this offset in front of
		// it and needs nothing behind it: its bytes must be readable.
		w.c.Fatalf("the bytes of live frame #%d (%d bytes, offset %d) cannot be read with the margins it was made with: %v", m.id, n, m.off, err)
	}
	return data
}

func (w *c17World) checkFresh(m *c17Frame, what string, inputHasMarkers bool) {
	c := w.c
	if m.f.RecvLink() != nil {
		c.Fatalf("%s: frame on recycled memory reports a receive link (%p) before any was set", what, m.f.RecvLink())
	}
	vis := w.visible(m)
	// Outside the frame region nothing of a released frame may be visible.
	before, after := vis[:m.off], vis[m.off+len(m.want):]
	if id, ok := w.findReleased(before); ok {
		c.Fatalf("%s: margin before the frame exposes bytes of released frame #%d", what, id)
	}
	if id, ok := w.findReleased(after); ok {
		c.Fatalf("%s: memory after the frame exposes bytes of released frame #%d", what, id)
	}
	if !inputHasMarkers {
		if id, ok := w.findReleased(vis[m.off : m.off+len(m.want)]); ok {
			c.Fatalf("%s: new frame contains bytes of released frame #%d", what, id)
		}
	}
}

func (w *c17World) opNew() {
	c := w.c
	id := w.nextID
	w.nextID++
	mt := c17Types[c.Pick("type", len(c17Types))]
	swN, plN, apxN := w.sizes(mt)
	sw, pl, apx := c17Fill(swN, id), c17Fill(plN, id), c17Fill(apxN, id)
	src, dst := c17Addr(id, 1), c17Addr(id, 2)
	f, err := w.b.NewFrameV1(src, dst, mt, sw, pl, apx)
	w.log("new #%d type=%d sw=%d payload=%d apx=%d", id, mt, swN, plN, apxN)
	if err != nil {
		c.Fatalf("NewFrameV1 within all limits failed: %v", err)
	}
	w.noteFresh(f)
	want := c17Expected(src, dst, mt, sw, pl, apx)
	got, _ := f.FrameDataWithMargins(0, 0)
	if len(got) == len(want) {
		copy(want[5:8], got[5:8]) // random nonce
	}
	auth := 64
	if mt.IsEncrypted() {
		auth = 16
	}
	m := &c17Frame{f: f, id: id, want: want, off: w.offset, swLen: swN, msgLen: plN, authLen: auth}
	w.live = append(w.live, m)
	w.checkFresh(m, fmt.Sprintf("new #%d", id), false)
}

// opNewRefused asks the builder for a frame it must refuse (a part over its
// limit, as a tun packet larger than the frame payload limit produces); the
// refusal may not leave anything behind that shows up in later frames.
func (w *c17World) opNewRefused() {
	c := w.c
	id := w.nextID
	w.nextID++
	mt := c17Types[c.Pick("type", len(c17Types))]
	swN, plN, apxN := 0, 100, 0
	what := core.OneOf(c, "refused.what", "payload", "payload", "switch-block", "appendix")
	switch what {
	case "payload":
		// (kept below the largest pooled buffer: beyond it NewFrameV1 does not
		// refuse but runs into a nil buffer - no caller builds frames that big)
		plN = core.OneOf(c, "refused.payload", 10001, 10500, 20000, 60000)
	case "switch-block":
		swN = core.OneOf(c, "refused.sw", 256, 300, 1000)
	default:
		apxN = core.OneOf(c, "refused.apx", 10001, 12000, 50000)
	}
	src, dst := c17Addr(id, 1), c17Addr(id, 2)
	f, err := w.b.NewFrameV1(src, dst, mt, c17Fill(swN, id), c17Fill(plN, id), c17Fill(apxN, id))
	w.log("newRefused #%d %s over its limit (sw=%d payload=%d apx=%d): err=%v", id, what, swN, plN, apxN, err != nil)
	if err == nil {
		// The builder took it after all: treat it as released at once.
		f.ReturnToPool()
	}
}

func (w *c17World) opParse() {
	c := w.c
	// Source bytes: a live frame or a released one.
	var src []byte
	var from string
	if len(w.relOrder) > 0 && (len(w.live) == 0 || c.Bool("parse.released")) {
		rid := w.relOrder[c.Pick("parse.rid", len(w.relOrder))]
		src, from = w.released[rid], fmt.Sprintf("released #%d", rid)
	} else if len(w.live) > 0 {
		m := w.live[c.Pick("parse.live", len(w.live))]
		src, from = m.want, fmt.Sprintf("live #%d", m.id)
	} else {
		return
	}
	off := core.OneOf(c, "parse.off", 2, 12)
	ps := w.b.GetPooledSlice(off + len(src) + 16)
	if ps == nil {
		return
	}
	for i, v := range ps {
		if v != 0 {
			c.Fatalf("GetPooledSlice returned recycled memory that is not zeroed (byte %d = %#x)", i, v)
		}
	}
	copy(ps[off:], src)
	// (Both callers in the repository hand over the buffer with its full
	// capacity; a trimmed one is outside the domain - in-place appendix growth
	// would then run past it.)
	f, err := w.b.ParseFrame(ps[off:off+len(src)], ps, off)
	id := w.nextID
	w.nextID++
	w.log("parse #%d from %s at offset %d (%d bytes)", id, from, off, len(src))
	if err != nil {
		c.Fatalf("ParseFrame of bytes of a well-formed frame failed: %v", err)
	}
	w.noteFresh(f)
	want := append([]byte(nil), src...)
	swN := int(want[48])
	plN := int(binary.BigEndian.Uint16(want[49+swN:]))
	auth := 64
	if frame.MessageType(want[4]).IsEncrypted() {
		auth = 16
	}
	m := &c17Frame{f: f, id: id, want: want, off: off, swLen: swN, msgLen: plN, authLen: auth}
	w.live = append(w.live, m)
	w.checkFresh(m, fmt.Sprintf("parse #%d", id), true)
}

// opParseMalformed hands the builder bytes of a frame whose structure is
// damaged (as a link reader does with whatever arrives); the parse fails and
// the caller keeps or recycles its buffer. Nothing of this may touch live frames.
func (w *c17World) opParseMalformed() {
	c := w.c
	var src []byte
	if len(w.relOrder) > 0 && (len(w.live) == 0 || c.Bool("bad.released")) {
		src = w.released[w.relOrder[c.Pick("bad.rid", len(w.relOrder))]]
	} else if len(w.live) > 0 {
		src = w.live[c.Pick("bad.live", len(w.live))].want
	} else {
		return
	}
	bad := append([]byte(nil), src...)
	swN := int(bad[48])
	how := core.OneOf(c, "bad.how", "message-length-beyond-data", "truncated-in-message", "switch-block-beyond-data", "truncated-header", "version")
	switch how {
	case "message-length-beyond-data":
		binary.BigEndian.PutUint16(bad[49+swN:], uint16(len(bad)))
	case "truncated-in-message":
		bad = bad[:min(len(bad), 49+swN+2+c.Int("bad.keep", 0, 16))]
	case "switch-block-beyond-data":
		bad[48] = 255
		bad = bad[:min(len(bad), 49+c.Int("bad.keep", 20, 200))]
	case "truncated-header":
		bad = bad[:c.Int("bad.hdr", 1, 48)]
	default:
		bad[0] = byte(c.Uniform("bad.version", 2, 255))
	}
	off := core.OneOf(c, "bad.off", 2, 12)
	ps := w.b.GetPooledSlice(off + len(bad) + 16)
	if ps == nil {
		return
	}
	copy(ps[off:], bad)
	f, err := w.b.ParseFrame(ps[off:off+len(bad)], ps, off)
	recycle := c.Bool("bad.recycle")
	w.log("parseMalformed (%s, %d bytes, offset %d, buffer recycled=%v): err=%v", how, len(bad), off, recycle, err != nil)
	if err == nil {
		// Still well-formed for the parser (e.g. the lengths happen to fit): drop it.
		f.ReturnToPool()
		return
	}
	if recycle {
		w.b.ReturnPooledSlice(ps)
	}
	w.malformed = true
}

// opRawBuffer uses a pooled buffer the way the tun reader and writer do: get it,
// fill it, hand back a trimmed view of it. ReturnPooledSlice restores the full
// size and zeroes it, so nothing of it may ever show up again.
func (w *c17World) opRawBuffer() {
	c := w.c
	size := core.OneOf(c, "raw.size", 100, 600, 1500, 1600, 5000, 9000)
	ps := w.b.GetPooledSlice(size)
	if ps == nil {
		return
	}
	for i, v := range ps {
		if v != 0 {
			c.Fatalf("GetPooledSlice returned recycled memory that is not zeroed (byte %d = %#x)", i, v)
		}
	}
	id := w.nextID
	w.nextID++
	fill := c17Fill(len(ps), id)
	copy(ps, fill)
	keep := c.Int("raw.trim", 0, len(ps))
	w.log("rawBuffer #%d: %d bytes filled, returned trimmed to %d", id, len(ps), keep)
	w.b.ReturnPooledSlice(ps[:keep])
	// Whatever comes out of that pool next is clean.
	again := w.b.GetPooledSlice(size)
	for i, v := range again {
		if v != 0 {
			c.Fatalf("after a filled buffer was returned as a %d-byte view, GetPooledSlice hands out memory that is not zeroed (byte %d = %#x)", keep, i, v)
		}
	}
	w.b.ReturnPooledSlice(again)
}

func (w *c17World) pick(label string) *c17Frame {
	if len(w.live) == 0 {
		return nil
	}
	return w.live[w.c.Pick(label, len(w.live))]
}

func (w *c17World) opClone() {
	m := w.pick("clone")
	if m == nil {
		return
	}
	id := w.nextID
	w.nextID++
	w.log("clone #%d -> #%d (%d bytes)", m.id, id, len(m.want))
	cl := m.f.Clone()
	cm := &c17Frame{f: cl, id: id, want: append([]byte(nil), m.want...), link: m.link, off: m.off, isClone: true,
		swLen: m.swLen, msgLen: m.msgLen, authLen: m.authLen}
	w.live = append(w.live, cm)
	if len(m.want)+m.off > 600 {
		w.bigCloneOrGrow = true
	}
	if cl.RecvLink() != m.link {
		w.c.Fatalf("clone #%d does not carry the receive link of its original", id)
	}
}

func (w *c17World) opReply() {
	c := w.c
	m := w.pick("reply")
	if m == nil {
		return
	}
	mt := frame.MessageType(m.want[4])
	swN, plN, apxN := w.sizes(mt)
	nid := w.nextID
	w.nextID++
	sw, pl, apx := c17Fill(swN, nid), c17Fill(plN, nid), c17Fill(apxN, nid)
	var src, dst netip.Addr
	var err error
	if c.Bool("reply.to") {
		src, dst = c17Addr(nid, 3), c17Addr(nid, 4)
		w.log("replyTo #%d (content #%d) sw=%d payload=%d apx=%d", m.id, nid, swN, plN, apxN)
		err = m.f.ReplyTo(src, dst, sw, pl, apx)
	} else {
		var s16, d16 [16]byte
		copy(s16[:], m.want[32:48])
		copy(d16[:], m.want[16:32])
		src, dst = netip.AddrFrom16(s16), netip.AddrFrom16(d16)
		w.log("reply #%d (content #%d) sw=%d payload=%d apx=%d", m.id, nid, swN, plN, apxN)
		err = m.f.Reply(sw, pl, apx)
	}
	if err != nil {
		c.Fatalf("Reply within all limits failed: %v", err)
	}
	// The old content of this frame is gone from its model; remember it as
	// released content (a reply must not keep anything it was not given).
	w.released[m.id] = m.want
	w.relOrder = append(w.relOrder, m.id)
	want := c17Expected(src, dst, mt, sw, pl, apx)
	got, _ := m.f.FrameDataWithMargins(0, 0)
	if len(got) == len(want) {
		copy(want[5:8], got[5:8])
	}
	m.want, m.id, m.link, m.off = want, nid, nil, w.offset
	m.swLen, m.msgLen = swN, plN
	if m.f.RecvLink() != nil {
		c.Fatalf("reply keeps the receive link of the request")
	}
	// (The addresses of a plain reply are the request's, swapped - by design.)
	if id, ok := w.findReleased(got[48:]); ok && id != nid {
		c.Fatalf("reply exposes bytes of earlier frame content #%d inside the frame", id)
	}
}

func (w *c17World) opAppendix() {
	c := w.c
	m := w.pick("apx.frame")
	if m == nil {
		return
	}
	start := m.apxStart()
	cur := len(m.want) - start
	var n int
	switch c.Weighted("apx.kind", 2, 3, 3, 2, 1) {
	case 0:
		n = 0
	case 1:
		n = cur + c.Int("apx.grow", 1, 200)
	case 2: // across a tier
		tier := c17Tiers[c.Pick("apx.tier", 4)]
		n = tier - m.off - start + c.Int("apx.delta", -2, 20)
	case 3:
		n = core.OneOf(c, "apx.big", 9000, 9999, 10000)
	default:
		n = core.OneOf(c, "apx.over", 10001, 12000, 70000)
	}
	if n < 0 {
		n = 0
	}
	apx := c17Fill(n, m.id)
	err := m.f.SetAppendixData(apx)
	w.log("setAppendix #%d %d -> %d bytes (clone=%v): err=%v", m.id, cur, n, m.isClone, err)
	switch {
	case n > 10000:
		if err == nil {
			c.Fatalf("SetAppendixData accepted %d bytes, over the protocol limit", n)
		}
	case err == nil:
		m.want = append(append([]byte(nil), m.want[:start]...), apx...)
		if n > cur && m.off+len(m.want) > 600 {
			w.bigCloneOrGrow = true
		}
	default:
		// Refused although within the protocol limit. The frame must be
		// unchanged; for a clone the statement promises growth up to the limit.
		c.Class("appendix-growth-refused")
		if m.isClone && m.off+start+n+w.overhead <= c17Tiers[len(c17Tiers)-1] {
			c.Fatalf("growing the appendix of a clone to %d bytes (protocol limit 10000) was refused: %v", n, err)
		}
	}
}

func (w *c17World) opMutate() {
	c := w.c
	m := w.pick("mut.frame")
	if m == nil {
		return
	}
	switch c.Pick("mut.kind", 6) {
	case 0:
		v := byte(c.Uniform("mut.ttl", 0, 255))
		m.f.SetTTL(v)
		m.want[1] = v
		w.log("setTTL #%d %d", m.id, v)
	case 1:
		fl := frame.FlowControlFlag(c.Int("mut.flow", 1, 3))
		m.f.SetFlowFlag(fl)
		m.want[2] |= byte(fl)
		w.log("setFlowFlag #%d %d", m.id, fl)
	case 2:
		v := uint32(c.Uint64("mut.seq"))
		m.f.SetSequenceNum(v)
		binary.BigEndian.PutUint32(m.want[8:12], v)
		w.log("setSequenceNum #%d %d", m.id, v)
	case 3:
		v := byte(c.Uniform("mut.rate", 0, 100))
		m.f.SetRecvRate(v)
		m.want[3] = v
		w.log("setRecvRate #%d %d", m.id, v)
	case 4:
		if m.swLen > 0 {
			nb := c.Bytes("mut.sw", m.swLen)
			if err := m.f.SetSwitchBlock(nb); err != nil {
				c.Fatalf("SetSwitchBlock with the same size failed: %v", err)
			}
			copy(m.want[49:49+m.swLen], nb)
			w.log("setSwitchBlock #%d", m.id)
		}
	default:
		m.f.ReduceTTL(1)
		if m.want[1] > 0 {
			m.want[1]--
		}
		w.log("reduceTTL #%d", m.id)
	}
}

func (w *c17World) opSetLink() {
	m := w.pick("link.frame")
	if m == nil {
		return
	}
	l := w.links[w.c.Pick("link", len(w.links))]
	m.f.SetRecvLink(l)
	m.link = l
	w.log("setRecvLink #%d %p", m.id, l)
}

func (w *c17World) opRelease() {
	if len(w.live) == 0 {
		return
	}
	i := w.c.Pick("release", len(w.live))
	m := w.live[i]
	w.live = append(w.live[:i], w.live[i+1:]...)
	w.relStructs[w.structAddr(m.f)] = true
	w.lastReleasedHad = m.link != nil
	w.log("release #%d (link=%v)", m.id, m.link != nil)
	m.f.ReturnToPool()
	w.released[m.id] = m.want
	w.relOrder = append(w.relOrder, m.id)
}

func (w *c17World) invariant(step string) {
	c := w.c
	for _, m := range w.live {
		got, err := m.f.FrameDataWithMargins(0, 0)
		if err != nil {
			c.Fatalf("after %s: frame #%d: %v", step, m.id, err)
		}
		if !bytes.Equal(got, m.want) {
			at := 0
			for at < len(got) && at < len(m.want) && got[at] == m.want[at] {
				at++
			}
			c.Fatalf("after %s: live frame #%d changed: %d bytes (want %d), first difference at byte %d", step, m.id, len(got), len(m.want), at)
		}
		var s16, d16 [16]byte
		copy(s16[:], m.want[16:32])
		copy(d16[:], m.want[32:48])
		if m.f.SrcIP() != netip.AddrFrom16(s16) || m.f.DstIP() != netip.AddrFrom16(d16) {
			c.Fatalf("after %s: frame #%d reports addresses %s -> %s that are not the ones in its bytes", step, m.id, m.f.SrcIP(), m.f.DstIP())
		}
		if m.f.RecvLink() != m.link {
			c.Fatalf("after %s: frame #%d reports receive link %p, want %p", step, m.id, m.f.RecvLink(), m.link)
		}
		start := m.apxStart()
		if !bytes.Equal(m.f.SwitchBlock(), m.want[49:49+m.swLen]) ||
			!bytes.Equal(m.f.MessageData(), m.want[49+m.swLen+2:49+m.swLen+2+m.msgLen]) ||
			!bytes.Equal(m.f.AppendixData(), m.want[start:]) {
			c.Fatalf("after %s: frame #%d accessors disagree with its bytes", step, m.id)
		}
	}
}

func c17Run(c *core.Case, maxOps int) {
	w := &c17World{c: c, b: frame.NewFrameBuilder(), released: map[int][]byte{}, relStructs: map[uintptr]bool{}, nextID: 1}
	w.offset, w.overhead = core.OneOf(c, "margin.off", 12, 0, 40, 100), core.OneOf(c, "margin.over", 16, 0, 40, 100)
	w.b.SetFrameMargins(w.offset, w.overhead)
	for i := 0; i < 3; i++ {
		w.links = append(w.links, &vnet.VLink{})
	}
	n := c.Int("ops", 1, maxOps)
	for i := 0; i < n; i++ {
		var step string
		switch c.Weighted("op", 0, 22, 10, 14, 8, 14, 10, 8, 14, 8, 5, 5) {
		case 1:
			w.opNew()
			step = "new"
		case 2:
			w.opParse()
			step = "parse"
		case 3:
			w.opClone()
			step = "clone"
		case 4:
			w.opReply()
			step = "reply"
		case 5:
			w.opAppendix()
			step = "setAppendix"
		case 6:
			w.opMutate()
			step = "mutate"
		case 7:
			w.opSetLink()
			step = "setRecvLink"
		case 9:
			w.opParseMalformed()
			step = "parseMalformed"
		case 10:
			w.opRawBuffer()
			step = "rawBuffer"
		case 11:
			w.opNewRefused()
			step = "newRefused"
		default:
			w.opRelease()
			step = "release"
		}
		w.invariant(step)
	}
	for _, m := range w.live {
		m.f.ReturnToPool()
	}
	kinds := make([]string, len(w.ops))
	for i, o := range w.ops {
		kinds[i] = strings.Fields(o)[0]
	}
	nt := w.bigCloneOrGrow || w.reuseAfterLink
	if w.malformed {
		c.Class("history-with-a-failed-parse")
	}
	c.Eval(strings.Join(w.ops, ";"), nt, func() any { return map[string]any{"margins": []int{w.offset, w.overhead}, "ops": w.ops} })
	if w.bigCloneOrGrow {
		c.Class("clone-or-growth-above-600-bytes")
	}
	if w.reuseAfterLink {
		c.Class("struct-reused-after-release-with-link")
	}
}

func TestC17(t *testing.T) {
	core.Run(t, c17Opts, func(c *core.Case) { c17Run(c, 40) })
}

// c17PoolExclusive draws a few buffers of one size class from the builder: the
// pool must hand out each piece of memory to one holder at a time (a buffer that
// was given back twice comes out twice, and two frames built on it share their
// bytes), and recycled memory is zeroed.
func c17PoolExclusive(c *core.Case, b *frame.Builder, size int, when string) {
	if size < 1 {
		size = 1
	}
	var got [][]byte
	for i := 0; i < 4; i++ {
		ps := b.GetPooledSlice(size)
		if len(ps) == 0 {
			break
		}
		full := ps[:cap(ps)]
		for j, x := range full {
			if x != 0 {
				c.Fatalf("%s: buffer handed out by the builder's pool is not zeroed (byte %d = %#x)", when, j, x)
			}
		}
		for _, o := range got {
			if &o[:1][0] == &ps[:1][0] {
				c.Fatalf("%s: the builder's pool handed out the same %d-byte buffer to two holders at once", when, cap(ps))
			}
		}
		got = append(got, ps)
	}
	for _, ps := range got {
		b.ReturnPooledSlice(ps)
	}
}

// TestC17LocalPackets: buffers that carry packets from the local interface into
// the router (the interface reader takes them from the shared builder's pool and
// the packet handler gives them back on every path, let in or dropped).
func TestC17LocalPackets(t *testing.T) {
	pool := ids.Routable()
	core.Run(t, core.Opts{ID: "C17", Quick: 300, Thorough: 10000}, func(c *core.Case) {
		iv := c.Pick("idV", len(pool))
		ip := c.Pick("idP", len(pool)-1)
		if ip >= iv {
			ip++
		}
		known := pool[(iv+ip+1)%len(pool)]
		if known == pool[iv] || known == pool[ip] {
			known = pool[(iv+ip+2)%len(pool)]
		}
		var st config.Store
		st.Router.Isolate = c.Bool("isolate")
		vn := vnet.New()
		V, err := vn.AddNode("V", pool[iv], vnet.NodeOpts{Store: st, WithTun: true})
		if err != nil {
			c.Fatalf("node: %v", err)
		}
		P, err := vn.AddNode("P", pool[ip], vnet.NodeOpts{})
		if err != nil {
			c.Fatalf("node: %v", err)
		}
		if _, _, err := vn.Connect(V, P, vnet.LinkOpts{LabelA: 5, LabelB: 6, LatA: 3, LatB: 3}); err != nil {
			c.Fatalf("connect: %v", err)
		}
		tracked := map[string]string{}
		n := c.Int("packets", 1, 12)
		for i := 0; i < n; i++ {
			key, may, tup := c06Outbound(c, vn, V, st.Router.Isolate, func(netip.Addr) bool { return false }, nil, known, P, tracked, nil)
			if _, seen := tracked[key]; key != "" && !seen && tup.valid {
				if may {
					tracked[key] = "allowed"
				} else {
					tracked[key] = "prohibited"
				}
			}
		}
		c.Eval(fmt.Sprintf("local-packets|%d|%v", n, st.Router.Isolate), n >= 2, nil)
	})
}
