package props

// C08 — Gossip routes name only routers that signed their hop; tampering is rejected.
//
// Generator: a converged honest mesh (3..8 real routers); one origin
// re-announces; every frame of that flood addressed to the victim V is held
// back at V's inbound links (genuine material, produced by the real code).
// A forgery operator rewrites a held frame: byte flips in body / origin
// signature / any nesting level of the hop chain, stripped outer layers,
// dropped / duplicated / swapped / substituted (from another announcement) /
// re-attributed inner layers, delivery over a link whose peer is not the
// outermost signer, zero hops with a foreign source, a chain containing V, and
// layers honestly signed by the attacker itself (1..99, the allowed control).
// The attacker holds only its own key: it re-signs its own layers, all other
// signatures stay as captured.
// Oracle: a reference verifier written from the statement (origin signature
// intact, every layer's record verifies under its router's key with the context
// origin address + timestamp + origin signature, outermost signer == delivering
// peer, V not in the chain). Not valid => the handler
// rejects or ignores it and nothing changes (routing table, stored info,
// sessions, nothing forwarded). Accepted => the new route lists exactly the
// attached routers in order with their delay and labels, next hop is the
// delivering peer.

import (
	"crypto/ed25519"
	"encoding/binary"
	"fmt"
	"net/netip"
	"testing"

	"github.com/fxamacker/cbor/v2"

	"github.com/mycoria/mycoria/frame"
	"github.com/mycoria/mycoria/m"
	"github.com/mycoria/mycoria/router"

	"verif/core"
	"verif/ids"
	"verif/vnet"
)

var c08Opts = core.Opts{ID: "C08", Quick: 500, Thorough: 20000}

type c08Layer struct {
	att router.AnnouncePingAttachment // NextAttachment ignored when re-encoding
	raw []byte                        // signed record bytes as captured (nil if rebuilt)
	sig []byte
	// signer, if set, signs this record when the chain is rebuilt (a forged
	// record that carries the forger's key under somebody else's address).
	signer *ids.Identity
	// recode, if non-zero, replaces the record's bytes - after signing - by
	// other bytes that decode to the same record (see c08Recode).
	recode int
}

// c08Recode returns a different encoding of the same record: a CBOR map with
// an extra unknown key (1), with the case of its first one-letter key changed
// (2), or with a longer form of the map header (3). Decoders that ignore
// unknown keys, match keys case-insensitively and accept non-minimal lengths
// read the same record from all of them; no signer ever produced these bytes.
func c08Recode(raw []byte, how int) []byte {
	if len(raw) < 3 || raw[0] < 0xa1 || raw[0] > 0xb6 {
		return raw
	}
	out := append([]byte(nil), raw...)
	switch how {
	case 1:
		out[0]++
		out = append(out, 0x61, 'z', 0x00)
	case 2:
		if out[1] == 0x61 && out[2] >= 'a' && out[2] <= 'z' {
			out[2] -= 0x20
		} else {
			out[0]++
			out = append(out, 0x61, 'z', 0x00)
		}
	default:
		out = append([]byte{0xb8, raw[0] - 0xa0}, raw[1:]...)
	}
	return out
}

// c08Split decodes an appendix into layers, outermost first.
func c08Split(apx []byte) ([]c08Layer, bool) {
	var out []c08Layer
	for len(apx) > 0 {
		if len(apx) < 65 {
			return out, false
		}
		raw, sig := apx[:len(apx)-64], apx[len(apx)-64:]
		var att router.AnnouncePingAttachment
		if err := cbor.Unmarshal(raw, &att); err != nil {
			return out, false
		}
		out = append(out, c08Layer{att: att, raw: append([]byte(nil), raw...), sig: append([]byte(nil), sig...)})
		apx = att.NextAttachment
		if len(out) > 120 {
			return out, false
		}
	}
	return out, true
}

// c08Build re-encodes layers (outermost first). Layers of the attacker are
// re-signed with its key, all others keep their captured signature.
func c08Build(layers []c08Layer, attacker *ids.Identity, context []byte) []byte {
	var inner []byte
	for i := len(layers) - 1; i >= 0; i-- {
		l := layers[i]
		att := l.att
		att.NextAttachment = inner
		raw, err := cbor.Marshal(att)
		if err != nil {
			panic(err)
		}
		sig := l.sig
		if l.signer != nil {
			sig, _ = l.signer.Addr.SignWithContext(raw, context)
		} else if attacker != nil && att.Router.IP == attacker.Addr.IP {
			sig, _ = attacker.Addr.SignWithContext(raw, context)
		}
		if len(sig) != 64 {
			sig = make([]byte, 64)
		}
		if l.recode != 0 {
			raw = c08Recode(raw, l.recode)
		}
		inner = append(raw, sig...)
	}
	return inner
}

type c08Frame struct {
	from   *vnet.Node // delivering peer
	link   *vnet.VLink
	data   []byte
	origin netip.Addr
}

// c08Parts locates the regions of an announce frame.
type c08Parts struct {
	msgStart, authStart, apxStart int
}

func c08PartsOf(data []byte) c08Parts {
	sw := int(data[48])
	msgLen := int(binary.BigEndian.Uint16(data[49+sw:]))
	p := c08Parts{msgStart: 49 + sw + 2}
	p.authStart = p.msgStart + msgLen
	p.apxStart = p.authStart + 64
	return p
}

func c08Context(data []byte) []byte {
	p := c08PartsOf(data)
	ctx := make([]byte, 16+8+64)
	copy(ctx[:16], data[16:32])
	copy(ctx[16:24], data[8:16])
	copy(ctx[24:], data[p.authStart:p.apxStart])
	return ctx
}

// c08Valid is the reference verifier.
func c08Valid(ms *mesh, v *vnet.Node, data []byte, delivering netip.Addr, bodyIntact bool, extra map[netip.Addr]*ids.Identity) (bool, string, []c08Layer) {
	if !bodyIntact {
		return false, "body or origin signature modified", nil
	}
	p := c08PartsOf(data)
	layers, ok := c08Split(data[p.apxStart:])
	if !ok {
		return false, "chain does not decode", layers
	}
	if len(layers) >= 100 {
		// The code stops at a nesting depth of 100; the statement does not fix a
		// verdict for such chains, so they are only required not to crash.
		return true, "100 or more layers (verdict not fixed)", layers
	}
	var s16 [16]byte
	copy(s16[:], data[16:32])
	origin := netip.AddrFrom16(s16)
	if len(layers) == 0 {
		if origin != delivering {
			return false, "no hop records but source is not the delivering peer", layers
		}
		return true, "", layers
	}
	ctx := c08Context(data)
	for i, l := range layers {
		if l.att.Router.IP == v.IP() {
			return false, "chain contains the receiving router", layers
		}
		var pub ed25519.PublicKey
		if n, ok := ms.vn.ByIP[l.att.Router.IP]; ok {
			pub = n.ID.Addr.PublicKey
		} else if id, ok := extra[l.att.Router.IP]; ok {
			pub = id.Addr.PublicKey
		} else {
			return false, fmt.Sprintf("layer %d names an unknown router", i), layers
		}
		if err := ed25519.VerifyWithOptions(pub, l.raw, l.sig, &ed25519.Options{Context: string(ctx)}); err != nil {
			return false, fmt.Sprintf("layer %d signature does not verify for this announcement", i), layers
		}
	}
	if layers[0].att.Router.IP != delivering {
		return false, "outermost signer is not the delivering peer", layers
	}
	return true, "", layers
}

func TestC08(t *testing.T) {
	core.Run(t, c08Opts, func(c *core.Case) {
		topo := genTopo(c, 3, 8)
		ms := buildMesh(c, topo, meshOpts{infoClass: c.Weighted("info", 3, 2, 1), spread: c.Bool("spread"), bigLabels: c.Bool("biglabels")})
		c.Note("topology %s", topo)
		c09Flood(c, ms, 400_000, false)
		vi := c.Int("victim", 0, topo.n-1)
		V := ms.nodes[vi]
		var all []netip.Addr
		for _, n := range ms.nodes {
			all = append(all, n.IP())
		}
		// One or two origins re-announce; frames for V are held.
		var held []*c08Frame
		norig := c.Int("origins", 1, 2)
		for k := 0; k < norig; k++ {
			oi := c.Int("origin", 0, topo.n-2)
			if oi >= vi {
				oi++
			}
			if err := ms.nodes[oi].Rtr.VerifAnnounce(); err != nil {
				c.Fatalf("re-announce: %v", err)
			}
			for guard := 0; ; guard++ {
				idx := -1
				for i, fl := range ms.vn.Queue {
					if fl.To != V {
						idx = i
						break
					}
				}
				if idx < 0 {
					break
				}
				if guard > 200000 {
					c.Fatalf("flood does not end")
				}
				_, r := ms.vn.Deliver(idx)
				if r.Panicked {
					c.Fatalf("panic during honest flood: %v", ms.vn.Panics)
				}
			}
			for _, fl := range ms.vn.Queue {
				if an := parseAnnouncement(fl.Data); an != nil && an.ok {
					held = append(held, &c08Frame{from: fl.From, link: fl.Link, data: fl.Data, origin: an.origin})
				}
			}
			ms.vn.Queue = nil
		}
		if len(held) == 0 {
			c.Class("no-frame-held")
			c.Eval("none", false, nil)
			return
		}
		// Foreign identity (not in the mesh) for re-attribution.
		foreign := ms.outsider(ids.All()[70:80], c.Pick("foreign", 10))
		extra := map[netip.Addr]*ids.Identity{foreign.Addr.IP: foreign}

		attacks := c.Int("attacks", 1, 6)
		for a := 0; a < attacks; a++ {
			h := held[c.Pick("held", len(held))]
			P := h.from
			data := append([]byte(nil), h.data...)
			parts := c08PartsOf(data)
			layers, _ := c08Split(data[parts.apxStart:])
			ctx := c08Context(data)
			attacker := ids.Get(0)
			attacker = P.ID // the delivering peer re-signs its own layers
			deliverLink := h.link
			bodyIntact := true
			opName := ""
			level := 0
			usesTwo := false
			namesStranger := false // the forgery names a router the victim has never heard of
			rebuild := func(ls []c08Layer) {
				data = append(data[:parts.apxStart:parts.apxStart], c08Build(ls, attacker, ctx)...)
			}
			op := c.Weighted("op", 8, 6, 8, 5, 6, 5, 5, 7, 9, 5, 4, 7, 3, 3, 9, 6, 5, 7)
			switch op {
			case 0:
				i := c.Uniform("flip.body", parts.msgStart, parts.authStart-1)
				data[i] ^= 1 << c.Uniform("flip.bit", 0, 7)
				bodyIntact = false
				opName = "flip-body"
			case 1:
				i := c.Uniform("flip.sig", parts.authStart, parts.apxStart-1)
				data[i] ^= 1 << c.Uniform("flip.bit", 0, 7)
				bodyIntact = false
				opName = "flip-origin-signature"
			case 2:
				if len(data) > parts.apxStart {
					i := c.Uniform("flip.apx", parts.apxStart, len(data)-1)
					data[i] ^= 1 << c.Uniform("flip.bit", 0, 7)
					opName = "flip-appendix-byte"
					level = 1
				} else {
					// recv rate, nonce, timestamp, source address. (Changing the type
					// or destination turns the frame into transit traffic that V simply
					// routes onward; that is not an announcement any more.)
					i := core.OneOf(c, "flip.hdr.region", 3, 5, 8, 16)
					switch i {
					case 5:
						i += c.Uniform("flip.hdr.o", 0, 2)
					case 8:
						i += c.Uniform("flip.hdr.o", 0, 7)
					case 16:
						i += c.Uniform("flip.hdr.o", 0, 15)
					}
					data[i] ^= 1 << c.Uniform("flip.bit", 0, 7)
					bodyIntact = false
					opName = "flip-header"
				}
			case 3:
				if len(layers) > 0 {
					j := c.Int("strip.n", 1, len(layers))
					data = append(data[:parts.apxStart:parts.apxStart], c08Build(layers[j:], nil, ctx)...)
					opName = fmt.Sprintf("strip-%d-outer-layers", j)
					level = j
					if j < len(layers) && c.Bool("strip.vialink") {
						if l, ok := V.Links[layers[j].att.Router.IP]; ok {
							deliverLink = l
							opName += "-via-inner-signers-link"
						}
					}
				} else {
					opName = "unmodified"
				}
			case 4:
				if len(layers) >= 2 {
					j := c.Int("drop.j", 1, len(layers)-1)
					ls := append(append([]c08Layer(nil), layers[:j]...), layers[j+1:]...)
					rebuild(ls)
					opName, level = "drop-inner-layer", j+1
				} else {
					opName = "unmodified"
				}
			case 5:
				if len(layers) >= 1 {
					j := c.Int("dup.j", 0, len(layers)-1)
					ls := append(append(append([]c08Layer(nil), layers[:j+1]...), layers[j]), layers[j+1:]...)
					rebuild(ls)
					opName, level = "duplicate-layer", j+1
				} else {
					opName = "unmodified"
				}
			case 6:
				if len(layers) >= 2 {
					j := c.Int("swap.j", 0, len(layers)-2)
					ls := append([]c08Layer(nil), layers...)
					ls[j], ls[j+1] = ls[j+1], ls[j]
					rebuild(ls)
					opName, level = "swap-layers", j+2
				} else {
					opName = "unmodified"
				}
			case 7: // substitute a layer by the same router's layer from another held announcement
				done := false
				if len(layers) >= 1 {
					for tries := 0; tries < 8 && !done; tries++ {
						o := held[c.Pick("subst.other", len(held))]
						if string(c08Context(o.data)) == string(ctx) {
							continue
						}
						ol, _ := c08Split(o.data[c08PartsOf(o.data).apxStart:])
						for j := range layers {
							for _, x := range ol {
								if x.att.Router.IP == layers[j].att.Router.IP && !done {
									ls := append([]c08Layer(nil), layers...)
									ls[j] = x
									// The substituted layer keeps its own bytes and signature.
									attackerKeep := attacker
									if x.att.Router.IP == attacker.Addr.IP {
										attackerKeep = nil // even the attacker's own old layer is not re-signed here
									}
									data = append(data[:parts.apxStart:parts.apxStart], c08Build(ls, attackerKeep, ctx)...)
									opName, level, usesTwo, done = "substitute-layer-from-other-announcement", j+1, true, true
								}
							}
						}
					}
				}
				if !done {
					// Whole chain of another announcement under this body.
					o := held[c.Pick("subst.chain", len(held))]
					if string(c08Context(o.data)) != string(ctx) {
						data = append(data[:parts.apxStart:parts.apxStart], o.data[c08PartsOf(o.data).apxStart:]...)
						deliverLink = o.link
						opName, usesTwo = "chain-of-other-announcement", true
					} else {
						opName = "unmodified"
					}
				}
			case 8:
				if len(layers) >= 1 {
					j := c.Int("reattr.j", 0, len(layers)-1)
					ls := append([]c08Layer(nil), layers...)
					var who *ids.Identity
					if c.Bool("reattr.foreign") {
						who = foreign
						namesStranger = true
					} else {
						who = ms.nodes[c.Pick("reattr.node", topo.n)].ID
					}
					if who.Addr.IP != ls[j].att.Router.IP {
						ls[j].att.Router = who.Addr.PublicAddress
						opName, level = "re-attribute-layer", j+1
						if c.Bool("reattr.ownkey") {
							// ... under the forger's own key, signed with it.
							ls[j].att.Router.PublicKey = attacker.Addr.PublicKey
							ls[j].signer = attacker
							opName = "re-attribute-layer-with-forgers-key"
						}
						rebuild(ls)
					} else {
						opName = "unmodified"
					}
				} else {
					opName = "unmodified"
				}
			case 9: // deliver over the link of another peer
				opName = "unmodified"
				for ip, l := range V.Links {
					if ip != P.IP() && (len(layers) == 0 || layers[0].att.Router.IP != ip) {
						deliverLink = l
						opName = "deliver-over-other-peers-link"
						break
					}
				}
			case 10:
				if len(layers) > 0 {
					data = data[:parts.apxStart]
					opName = "zero-hops-foreign-source"
				} else {
					opName = "unmodified"
				}
			case 11, 12: // attacker wraps own honest layers (allowed control)
				n := 1
				if op == 12 {
					n = core.OneOf(c, "wrap.n", 2, 5, 40, 97, 98, 99, 100, 120)
				}
				var atk *vnet.Node
				// any peer of V may play the attacker
				var peers []*vnet.Node
				for ip := range V.Links {
					peers = append(peers, ms.vn.ByIP[ip])
				}
				// deterministic order
				for i := range peers {
					for j := i + 1; j < len(peers); j++ {
						if peers[j].IP().Less(peers[i].IP()) {
							peers[i], peers[j] = peers[j], peers[i]
						}
					}
				}
				atk = peers[c.Pick("wrap.atk", len(peers))]
				ls := append([]c08Layer(nil), layers...)
				for k := 0; k < n; k++ {
					ls = append([]c08Layer{{att: router.AnnouncePingAttachment{
						Router: atk.ID.Addr.PublicAddress, Delay: uint16(c.Int("wrap.delay", 0, 100)),
						ForwardLabel: m.SwitchLabel(c.Int("wrap.f", 1, 300)), ReturnLabel: m.SwitchLabel(c.Int("wrap.r", 1, 300)),
					}}}, ls...)
				}
				data = append(data[:parts.apxStart:parts.apxStart], c08Build(ls, atk.ID, ctx)...)
				deliverLink = V.Links[atk.IP()]
				opName = fmt.Sprintf("attacker-wraps-%d-own-layers", n)
			case 16: // the frame re-typed to the other hop-ping type (the type byte is signed), optionally with an altered body
				if frame.MessageType(data[4]) == frame.RouterHopPing {
					data[4] = byte(frame.RouterHopPingDeprecated)
				} else {
					data[4] = byte(frame.RouterHopPing)
				}
				if c.Bool("retype.body") {
					i := c.Uniform("retype.flip", parts.msgStart, parts.authStart-1)
					data[i] ^= 1 << c.Uniform("flip.bit", 0, 7)
				}
				bodyIntact = false
				opName = "re-typed-hop-ping"
			case 15: // the delivering peer signs its own record again, with other labels (valid)
				if len(layers) >= 1 && layers[0].att.Router.IP == attacker.Addr.IP {
					ls := append([]c08Layer(nil), layers...)
					ls[0].att.ForwardLabel = m.SwitchLabel(c.Int("relabel.f", 1, 70000) % 65536)
					ls[0].att.ReturnLabel = m.SwitchLabel(c.Int("relabel.r", 1, 70000) % 65536)
					if ls[0].att.ForwardLabel == 0 {
						ls[0].att.ForwardLabel = 1
					}
					if ls[0].att.ReturnLabel == 0 {
						ls[0].att.ReturnLabel = 1
					}
					if c.Bool("relabel.delay") {
						ls[0].att.Delay = uint16(c.Int("relabel.d", 0, 200))
					}
					rebuild(ls)
					opName, level = "peer-re-signs-own-record-with-other-labels", 1
				} else {
					opName = "unmodified"
				}
			case 17: // a hop record in another encoding of the same contents, under the signature made for the original bytes
				if len(layers) >= 1 && layers[0].att.Router.IP == attacker.Addr.IP {
					j := 0
					if len(layers) >= 2 && c.Bool("recode.inner") {
						j = 1 // the record right below the delivering peer's own (which is signed again over the new bytes)
					}
					ls := append([]c08Layer(nil), layers...)
					ls[j].recode = 1 + c.Pick("recode.how", 3)
					rebuild(ls)
					opName, level = fmt.Sprintf("hop-record-re-encoded-%d", ls[j].recode), j+1
				} else {
					opName = "unmodified"
				}
			case 14: // an extra inner hop that names a router known to V, under the forger's key
				var cands []*ids.Identity
				for _, n := range ms.nodes {
					in := n == V || n.IP() == h.origin
					for _, l := range layers {
						if l.att.Router.IP == n.IP() {
							in = true
						}
					}
					if !in {
						cands = append(cands, n.ID)
					}
				}
				if len(layers) >= 1 && len(cands) > 0 {
					who := cands[c.Pick("forge.who", len(cands))]
					if c.Chance("forge.stranger", 1, 3) {
						who, namesStranger = foreign, true
					}
					j := c.Int("forge.j", 1, len(layers))
					pa := who.Addr.PublicAddress
					pa.PublicKey = attacker.Addr.PublicKey
					fake := c08Layer{att: router.AnnouncePingAttachment{Router: pa, Delay: uint16(c.Int("forge.delay", 0, 50)),
						ForwardLabel: m.SwitchLabel(c.Int("forge.f", 1, 300)), ReturnLabel: m.SwitchLabel(c.Int("forge.r", 1, 300))}, signer: attacker}
					ls := append(append(append([]c08Layer(nil), layers[:j]...), fake), layers[j:]...)
					rebuild(ls)
					opName, level = "insert-hop-of-known-router-under-forgers-key", j+1
				} else {
					opName = "unmodified"
				}
			default: // chain containing V itself
				ls := append([]c08Layer(nil), layers...)
				j := c.Int("loop.j", 0, len(ls))
				fake := c08Layer{att: router.AnnouncePingAttachment{Router: V.ID.Addr.PublicAddress, ForwardLabel: 1, ReturnLabel: 2}, sig: make([]byte, 64)}
				ls = append(append(append([]c08Layer(nil), ls[:j]...), fake), ls[j:]...)
				rebuild(ls)
				opName = "chain-contains-victim"
			}
			if len(data) > 60000 {
				c.Class("forgery-too-big-skipped")
				continue
			}
			delivering := deliverLink.Peer()
			valid, why, vlayers := c08Valid(ms, V, data, delivering, bodyIntact, extra)
			c.Note("attack %d: op=%s origin=n%d captured-from=n%d layers=%d deliver-via=n%d -> reference: valid=%v %s", a, opName, ms.idx[h.origin], ms.idx[P.IP()], len(layers), ms.idx[delivering], valid, why)

			before := snapshotNode(V, all)
			qBefore := len(ms.vn.Queue)
			res := ms.vn.Inject(V, deliverLink, data)
			after := snapshotNode(V, all)
			forwarded := len(ms.vn.Queue) - qBefore
			ms.vn.Queue = ms.vn.Queue[:qBefore]
			if res.Panicked {
				c.Fatalf("forgery %q panicked a worker of the victim: %v", opName, ms.vn.Panics)
			}
			if !valid {
				if d := diffSnap(before, after, true); len(d) > 0 {
					c.Fatalf("forgery %q (%s) changed the victim's state: %v", opName, why, d)
				}
				if forwarded > 0 {
					c.Fatalf("forgery %q (%s) was forwarded to %d peer(s)", opName, why, forwarded)
				}
				c.Class("rejected/" + opName)
				if namesStranger || c.Chance("again", 1, 3) {
					// The same forgery once more: the rejected first delivery must not have
					// left anything behind that lets the second one pass.
					res2 := ms.vn.Inject(V, deliverLink, data)
					after2 := snapshotNode(V, all)
					forwarded2 := len(ms.vn.Queue) - qBefore
					ms.vn.Queue = ms.vn.Queue[:qBefore]
					if res2.Panicked {
						c.Fatalf("second delivery of forgery %q panicked a worker of the victim: %v", opName, ms.vn.Panics)
					}
					if d := diffSnap(before, after2, true); len(d) > 0 {
						c.Fatalf("forgery %q (%s) was rejected at first, but its second delivery changed the victim's state: %v", opName, why, d)
					}
					if forwarded2 > 0 {
						c.Fatalf("forgery %q (%s) was rejected at first, but its second delivery was forwarded", opName, why)
					}
					c.Class("rejected-twice/" + opName)
				}
			} else {
				accepted := res.ParseErr == nil && res.SwitchErr == nil && len(res.RouterErrs) == 0
				if accepted {
					c.Class("valid-accepted/" + opName)
				} else {
					c.Class("valid-not-accepted/" + opName)
				}
				// Whatever route to the origin via this peer with this many hops exists
				// now must list exactly the attached routers.
				// (A valid announcement may add its route and still return an error
				// from the forwarding step, e.g. when the grown appendix exceeds the
				// protocol limit - that is not a rejection.)
				if len(diffSnap(before, after, true)) > 0 && len(vlayers) < 100 {
					c08CheckRoute(c, ms, V, h.origin, delivering, vlayers, opName)
				}
				// An accepted announcement is the newest word of its signers: a route
				// over exactly this relay sequence must not keep labels or delays from
				// an earlier announcement.
				if accepted && len(vlayers) < 100 {
					c08CheckNotStale(c, ms, V, h.origin, delivering, vlayers, opName)
				}
			}
			nt := usesTwo || level >= 2
			c.Eval(fmt.Sprintf("%s|k=%d|level=%d", opName, len(layers), level), nt, func() any {
				return map[string]any{"operator": opName, "captured_layers": len(layers), "level": level, "reference_valid": valid, "reason": why, "topology": topo.String()}
			})
		}
		// Positive control: the genuine held frames are accepted (at least the first).
		h := held[0]
		before := snapshotNode(V, all)
		res := ms.vn.Inject(V, h.link, h.data)
		if res.Panicked {
			c.Fatalf("genuine announcement panicked: %v", ms.vn.Panics)
		}
		ms.vn.Queue = nil
		if len(res.RouterErrs) == 0 && res.ParseErr == nil {
			valid, why, vlayers := c08Valid(ms, V, h.data, h.from.IP(), true, nil)
			if !valid {
				c.Fatalf("reference verifier rejects a genuine announcement: %s", why)
			}
			after := snapshotNode(V, all)
			if len(diffSnap(before, after, true)) > 0 {
				c08CheckRoute(c, ms, V, h.origin, h.from.IP(), vlayers, "genuine")
			}
			c.Class("genuine-accepted")
		} else {
			c.Class("genuine-not-accepted")
			c.Note("genuine frame refused: %v", res.RouterErrs)
		}
	})
}

// c08CheckNotStale: a route to origin via the delivering peer over exactly the
// attached routers carries exactly the delay and labels attached now.
func c08CheckNotStale(c *core.Case, ms *mesh, V *vnet.Node, origin, delivering netip.Addr, layers []c08Layer, what string) {
	want := len(layers) + 2
	for _, e := range V.Rtr.Table().VerifEntries() {
		if e.DstIP != origin || e.NextHop != delivering || len(e.Path.Hops) != want || e.Source != m.RouteSourceGossip {
			continue
		}
		same := true
		for i, l := range layers {
			if e.Path.Hops[1+i].Router != l.att.Router.IP {
				same = false
			}
		}
		if !same {
			continue
		}
		for i, l := range layers {
			hop := e.Path.Hops[1+i]
			if hop.Delay != l.att.Delay || hop.ForwardLabel != l.att.ForwardLabel || hop.ReturnLabel != l.att.ReturnLabel {
				e := e
				c.Fatalf("%s announcement of n%d accepted via n%d, but the route over the same routers still lists hop n%d with delay %d labels %d/%d; signed now: delay %d labels %d/%d (route: %s)",
					what, ms.idx[origin], ms.idx[delivering], ms.idx[hop.Router], hop.Delay, hop.ForwardLabel, hop.ReturnLabel, l.att.Delay, l.att.ForwardLabel, l.att.ReturnLabel, tableEntryString(&e, false))
			}
		}
	}
}

// c08CheckRoute: among V's routes to origin via the delivering peer there must
// be one that lists exactly the attached routers (reverse chain order) with
// their delay and labels.
func c08CheckRoute(c *core.Case, ms *mesh, V *vnet.Node, origin, delivering netip.Addr, layers []c08Layer, what string) {
	want := len(layers) + 2
	for _, e := range V.Rtr.Table().VerifEntries() {
		if e.DstIP != origin || e.NextHop != delivering || len(e.Path.Hops) != want {
			continue
		}
		match := e.Path.Hops[0].Router == V.IP() && e.Path.Hops[want-1].Router == origin
		for i, l := range layers {
			hop := e.Path.Hops[1+i]
			if hop.Router != l.att.Router.IP || hop.Delay != l.att.Delay || hop.ForwardLabel != l.att.ForwardLabel || hop.ReturnLabel != l.att.ReturnLabel {
				match = false
			}
		}
		if match {
			return
		}
	}
	var have []string
	for _, e := range V.Rtr.Table().VerifEntries() {
		if e.DstIP == origin {
			e := e
			have = append(have, tableEntryString(&e, false))
		}
	}
	c.Fatalf("%s announcement of n%d accepted via n%d with %d hop records, but no route lists exactly those routers with their delay and labels; routes to the origin: %v", what, ms.idx[origin], ms.idx[delivering], len(layers), have)
}
