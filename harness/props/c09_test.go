package props

// C09 — Gossip reach and termination in honest meshes.
//
// Generator: connected topologies of 2..16 real routers (line, ring, star,
// tree, grid, complete, random connected), per-link labels from the 1- and
// 2-byte classes, latencies, router-info size classes that push the announce
// frame across the 600- and 1600-byte pool tiers, addresses in one routing
// prefix or spread; every router announces once (real announce code) in a
// generated order interleaved with deliveries; the schedule (which in-flight
// frame is delivered next) is generated (FIFO, LIFO, random).
// Oracle: reach (exact-destination route at every router for every other
// router whose forward labels, walked over the real link tables, end at the
// destination; a frame carrying the route's forward block pushed through the
// real switches is escalated exactly at the destination) and flood hygiene
// over the log of link crossings.

import (
	"fmt"
	"net/netip"
	"slices"
	"testing"

	"github.com/mycoria/mycoria/frame"
	"github.com/mycoria/mycoria/m"

	"verif/core"
	"verif/ids"
	"verif/vnet"
)

var c09Opts = core.Opts{ID: "C09", Quick: 400, Thorough: 8000}

func c09SimplePaths(t meshTopo, from int, limit int) int {
	adj := t.adj()
	visited := make([]bool, t.n)
	count := 0
	var dfs func(x int)
	dfs = func(x int) {
		if count > limit {
			return
		}
		visited[x] = true
		for _, y := range adj[x] {
			if !visited[y] {
				count++
				dfs(y)
			}
		}
		visited[x] = false
	}
	dfs(from)
	return count
}

type c09Result struct {
	deliveries int
	announces  int
}

// c09Flood lets every node announce once and drains the net under a generated schedule.
func c09Flood(c *core.Case, ms *mesh, maxDeliveries int, check bool) c09Result {
	t := ms.topo
	vn := ms.vn
	// Announce order.
	order := make([]int, t.n)
	for i := range order {
		order[i] = i
	}
	for i := t.n - 1; i > 0; i-- {
		j := c.Int("announce.perm", 0, i)
		order[i], order[j] = order[j], order[i]
	}
	mode := c.Weighted("schedule", 3, 2, 5)
	eager := c.Weighted("announce.timing", 2, 2, 3) // all first / one by one after drain / interleaved
	seenPath := map[string]bool{}
	perAnn := map[string]int{}
	pathBound := map[int]int{}
	var res c09Result
	next := 0
	for next < len(order) || len(vn.Queue) > 0 {
		announceNow := false
		if next < len(order) {
			switch {
			case len(vn.Queue) == 0:
				announceNow = true
			case eager == 0:
				announceNow = true
			case eager == 2:
				announceNow = c.Chance("announce.now", 1, 4)
			}
		}
		if announceNow {
			n := ms.nodes[order[next]]
			next++
			if err := n.Rtr.VerifAnnounce(); err != nil {
				c.Fatalf("announce at %s failed: %v", n.Name, err)
			}
			res.announces++
			continue
		}
		i := 0
		switch mode {
		case 1:
			i = len(vn.Queue) - 1
		case 2:
			i = c.Uniform("pick", 0, len(vn.Queue)-1)
		}
		fl := vn.Queue[i]
		if check {
			if an := parseAnnouncement(fl.Data); an != nil {
				c09Hygiene(c, ms, fl, an, seenPath, perAnn, pathBound)
			}
		}
		if ms.par && c.Chance("pair", 1, 5) {
			// Another frame for the same router arrives at the same moment: the two
			// are handled by two of its workers, one held at a generated point.
			var cand []int
			for k, f2 := range vn.Queue {
				if k != i && f2.To == fl.To {
					cand = append(cand, k)
				}
			}
			if len(cand) > 0 {
				j := cand[c.Pick("pair.other", len(cand))]
				f2 := vn.Queue[j]
				if check {
					if an := parseAnnouncement(f2.Data); an != nil {
						c09Hygiene(c, ms, f2, an, seenPath, perAnn, pathBound)
					}
				}
				if j > i {
					vn.Drop(j)
					vn.Drop(i)
				} else {
					vn.Drop(i)
					vn.Drop(j)
				}
				if at := core.OneOf(c, "pair.point", "", "instance.Identity", "instance.State", "instance.Peering", "instance.Switch", "instance.RoutingTable", "link.IsClosing", "link.IsClosing"); at == "" {
					fl.To.Gate.Arm(c.Int("pair.any-call", 0, 20))
				} else {
					fl.To.Gate.ArmAt(at, c.Uniform("pair.call", 0, 6))
				}
				r, _, ok := vn.InjectPar(fl.To, []*vnet.VLink{fl.Link, f2.Link}, [][]byte{fl.Data, f2.Data})
				res.deliveries += 2
				if r.Panicked {
					c.Fatalf("worker panic while two workers of %s handled frames from %s and %s at once (held at %q): %v", fl.To.Name, fl.From.Name, f2.From.Name, fl.To.Gate.Point, vn.Panics)
				}
				if !ok {
					c.Fatalf("two workers of %s did not finish handling two frames at once (held at %q)", fl.To.Name, fl.To.Gate.Point)
				}
				c.Class("two-frames-for-one-router-handled-at-once")
				continue
			}
		}
		_, r := vn.Deliver(i)
		res.deliveries++
		if r.Panicked {
			c.Fatalf("worker panic while %s handled a frame from %s: %v", fl.To.Name, fl.From.Name, vn.Panics)
		}
		if r.ParseErr != nil || r.SwitchErr != nil || len(r.RouterErrs) > 0 {
			c.Note("delivery %s->%s: parse=%v switch=%v router=%v", fl.From.Name, fl.To.Name, r.ParseErr, r.SwitchErr, r.RouterErrs)
			c.Class("delivery-rejected-by-receiver")
		}
		if res.deliveries > maxDeliveries {
			c.Fatalf("flood did not terminate within %d deliveries (%s)", maxDeliveries, t)
		}
	}
	return res
}

func c09Hygiene(c *core.Case, ms *mesh, fl *vnet.InFlight, an *meshAnnouncement, seenPath map[string]bool, perAnn map[string]int, pathBound map[int]int) {
	t := ms.topo
	if !an.ok {
		c.Fatalf("honest router %s emitted an announcement with an undecodable hop chain", fl.From.Name)
	}
	oi, okO := ms.idx[an.origin]
	if !okO {
		c.Fatalf("announcement with unknown origin %s", an.origin)
	}
	path := []int{oi}
	for _, h := range an.hops {
		hi, ok := ms.idx[h]
		if !ok {
			c.Fatalf("announcement hop %s is not a router of the mesh", h)
		}
		path = append(path, hi)
	}
	sender := ms.idx[fl.From.IP()]
	recv := ms.idx[fl.To.IP()]
	if path[len(path)-1] != sender {
		c.Fatalf("announcement of n%d sent by n%d, but its newest hop record is n%d", oi, sender, path[len(path)-1])
	}
	full := append(append([]int(nil), path...), recv)
	desc := fmt.Sprint(full)
	if recv == oi {
		c.Fatalf("announcement sent back to its origin: path %s", desc)
	}
	if len(path) >= 2 && recv == path[len(path)-2] {
		c.Fatalf("announcement sent back over the link it arrived on: path %s", desc)
	}
	seen := map[int]bool{}
	for k, x := range full {
		if seen[x] {
			c.Fatalf("announcement sent to a router already in its hop list: path %s", desc)
		}
		seen[x] = true
		if k > 0 && !t.hasEdge(full[k-1], x) {
			c.Fatalf("announcement path %s uses a link that does not exist", desc)
		}
	}
	key := an.sig + "|" + desc
	if seenPath[key] {
		c.Fatalf("the same announcement travelled path %s twice", desc)
	}
	seenPath[key] = true
	perAnn[an.sig]++
	if t.n <= 10 {
		b, ok := pathBound[oi]
		if !ok {
			b = c09SimplePaths(t, oi, 1_000_000)
			pathBound[oi] = b
		}
		if perAnn[an.sig] > b {
			c.Fatalf("announcement of n%d was delivered %d times, but only %d loop-free paths start there", oi, perAnn[an.sig], b)
		}
	}
}

// c09Walk follows the forward labels of a route from node i.
func c09Walk(c *core.Case, ms *mesh, i, j int, rte *m.RoutingTableEntry) {
	hops := rte.Path.Hops
	if len(hops) < 2 {
		// The entry a new link puts into the table (peer, next hop, no labels) is
		// replaced by the neighbour's announcement; once every router has
		// announced and the net has drained, a route without forward labels leads
		// nowhere when followed.
		c.Fatalf("route n%d->n%d (source %s, next hop %s) has no forward labels to follow", i, j, rte.Source, rte.NextHop)
	}
	if hops[0].Router != ms.nodes[i].IP() {
		c.Fatalf("route n%d->n%d does not start at its own router", i, j)
	}
	cur := i
	for h := 0; h+1 < len(hops); h++ {
		label := hops[h].ForwardLabel
		nxt, ok := ms.labelTo[cur][label]
		if !ok {
			c.Fatalf("route n%d->n%d: hop %d names forward label %d, n%d has no such link", i, j, h, label, cur)
		}
		link := ms.nodes[cur].Peer.GetLinkByLabel(label)
		if link == nil || link.Peer() != ms.nodes[nxt].IP() {
			c.Fatalf("route n%d->n%d: real link table of n%d disagrees for label %d", i, j, cur, label)
		}
		if hops[h+1].Router != ms.nodes[nxt].IP() {
			c.Fatalf("route n%d->n%d: label %d at n%d leads to n%d, the route lists %s", i, j, label, cur, nxt, hops[h+1].Router)
		}
		cur = nxt
	}
	if cur != j || hops[len(hops)-1].ForwardLabel != 0 {
		c.Fatalf("route n%d->n%d: following the forward labels ends at n%d", i, j, cur)
	}
	if h0 := rte.NextHop; h0 != hops[1].Router {
		c.Fatalf("route n%d->n%d: next hop %s is not the first hop of its path", i, j, h0)
	}
}

// c09Push sends a frame carrying the route's forward block through the real switches.
func c09Push(c *core.Case, ms *mesh, i, j int, rte *m.RoutingTableEntry) {
	if len(rte.Path.Hops) < 2 || len(rte.Path.ForwardBlock) == 0 {
		return
	}
	vn := ms.vn
	if len(vn.Queue) != 0 {
		c.Fatalf("internal: queue not empty before push test")
	}
	// The statement claims the forward labels only. Announcements are flooded on
	// all links with the return label of one of them, so a route's return
	// labels (and with them the computed block size) may belong to another link
	// of the destination; the probe therefore carries the forward labels in a
	// block with room for return labels of any size.
	block := append(slices.Clone(rte.Path.ForwardBlock), make([]byte, 3*len(rte.Path.Hops)+2)...)
	first, err := m.NextRotateSwitchBlock(block, 0)
	if err != nil {
		c.Fatalf("route n%d->n%d: rotating the forward block at the origin: %v", i, j, err)
	}
	src := ms.nodes[i]
	f, err := src.Builder.NewFrameV1(src.IP(), ms.nodes[j].IP(), frame.RouterPing, block, []byte("c09 label-switched probe"), nil)
	if err != nil {
		c.Fatalf("probe frame: %v", err)
	}
	if err := src.Sw.ForwardByLabel(f, first); err != nil {
		c.Fatalf("route n%d->n%d: origin cannot forward by first label %d: %v", i, j, first, err)
	}
	for steps := 0; len(vn.Queue) > 0; steps++ {
		if steps > 40 {
			c.Fatalf("route n%d->n%d: probe still travelling after 40 hops", i, j)
		}
		fl := vn.Drop(0)
		esc, err := vn.InjectSwitch(fl.To, fl.Link, fl.Data)
		if err != nil {
			c.Fatalf("route n%d->n%d: switch of %s failed: %v", i, j, fl.To.Name, err)
		}
		for _, e := range esc {
			at := ms.idx[fl.To.IP()]
			if at != j {
				c.Fatalf("route n%d->n%d: label-switched probe was handed to the router of n%d", i, j, at)
			}
			if e.SrcIP() != src.IP() {
				c.Fatalf("route n%d->n%d: escalated frame has the wrong source", i, j)
			}
			e.ReturnToPool()
			if len(vn.Queue) != 0 {
				c.Fatalf("route n%d->n%d: probe both escalated and forwarded", i, j)
			}
			return
		}
	}
	c.Fatalf("route n%d->n%d: label-switched probe never reached the destination router", i, j)
}

func c09Reach(c *core.Case, ms *mesh, push bool) {
	for i := range ms.nodes {
		for j := range ms.nodes {
			if i == j {
				continue
			}
			dst := ms.nodes[j].IP()
			rte, isDst := ms.nodes[i].Rtr.Table().LookupNearestRoute(dst)
			if rte == nil || !isDst || rte.DstIP != dst {
				got := netip.Addr{}
				if rte != nil {
					got = rte.DstIP
				}
				for _, se := range ms.vn.SendErrs {
					c.Note("link writer refused: %s", se)
				}
				c.Fatalf("after the mesh drained, n%d has no exact route to n%d (distance %d; lookup gave %v, isDestination=%v) in %s", i, j, ms.topo.dist(i, j), got, isDst, ms.topo)
			}
			c09Walk(c, ms, i, j, rte)
			if push {
				c09Push(c, ms, i, j, rte)
			}
		}
	}
}

func c09Case(c *core.Case, maxN int) {
	t := genTopo(c, 2, maxN)
	o := meshOpts{infoClass: c.Weighted("info", 3, 3, 4, 4), spread: c.Bool("spread"), bigLabels: c.Bool("biglabels")}
	ms := buildMesh(c, t, o)
	c.Note("topology %s info=%d spread=%v biglabels=%v", t, o.infoClass, o.spread, o.bigLabels)
	ms.par = c.Chance("workers-in-parallel", 1, 3)
	res := c09Flood(c, ms, 400_000, true)
	c09Reach(c, ms, t.n <= 10 || c.Chance("push.big", 1, 3))
	diam := t.diameter()
	nt := diam >= 4 || t.hasCycle()
	c.Eval(fmt.Sprintf("%s|info=%d|spread=%v|big=%v|del=%d", t, o.infoClass, o.spread, o.bigLabels, res.deliveries), nt, func() any {
		return map[string]any{"topology": t.String(), "diameter": diam, "info_class": o.infoClass, "deliveries": res.deliveries}
	})
	c.Class("family-" + t.family)
	switch {
	case t.n <= 4:
		c.Class("nodes-2..4")
	case t.n <= 8:
		c.Class("nodes-5..8")
	case t.n <= 12:
		c.Class("nodes-9..12")
	default:
		c.Class("nodes-13..16")
	}
	if diam >= 4 {
		c.Class("diameter>=4")
	}
}

func TestC09(t *testing.T) {
	core.Run(t, c09Opts, func(c *core.Case) {
		maxN := 16
		if !core.Thorough() && !c.Chance("big", 1, 6) {
			maxN = 8
		}
		c09Case(c, maxN)
	})
}

// TestC09ExhaustiveSchedules enumerates every delivery order of the first K
// deliveries (the rest FIFO) for tiny meshes.
func TestC09ExhaustiveSchedules(t *testing.T) {
	type cfg struct {
		name  string
		topo  meshTopo
		depth int
	}
	d := func(quick, thorough int) int {
		if core.Thorough() {
			return thorough
		}
		return quick
	}
	cfgs := []cfg{
		{"line2", meshTopo{family: "line", n: 2, edges: [][2]int{{0, 1}}}, 8},
		{"line3", meshTopo{family: "line", n: 3, edges: [][2]int{{0, 1}, {1, 2}}}, d(4, 6)},
		{"triangle", meshTopo{family: "complete", n: 3, edges: [][2]int{{0, 1}, {1, 2}, {0, 2}}}, d(2, 4)},
		{"star4", meshTopo{family: "star", n: 4, edges: [][2]int{{0, 1}, {0, 2}, {0, 3}}}, d(2, 4)},
	}
	for _, cf := range cfgs {
		cf := cf
		t.Run(cf.name, func(t *testing.T) {
			core.Exhaust(t, c09Opts, 600_000, func(c *core.Case) {
				// Fixed mesh (no draws): identities and labels by position.
				ms := &mesh{vn: vnet.New(), topo: cf.topo, idx: map[netip.Addr]int{}}
				pool := ids.Group("eu")
				for i := 0; i < cf.topo.n; i++ {
					n, err := ms.vn.AddNode(fmt.Sprintf("n%d", i), pool[i], vnet.NodeOpts{})
					if err != nil {
						c.Fatalf("node: %v", err)
					}
					ms.nodes = append(ms.nodes, n)
					ms.idx[n.IP()] = i
					ms.labelTo = append(ms.labelTo, map[m.SwitchLabel]int{})
				}
				for k, e := range cf.topo.edges {
					la, lb := m.SwitchLabel(10+2*k), m.SwitchLabel(200+2*k)
					ms.labelTo[e[0]][la], ms.labelTo[e[1]][lb] = e[1], e[0]
					if _, _, err := ms.vn.Connect(ms.nodes[e[0]], ms.nodes[e[1]], vnet.LinkOpts{LabelA: la, LabelB: lb, LatA: 5, LatB: 7}); err != nil {
						c.Fatalf("connect: %v", err)
					}
				}
				for _, n := range ms.nodes {
					if err := n.Rtr.VerifAnnounce(); err != nil {
						c.Fatalf("announce: %v", err)
					}
				}
				seenPath, perAnn, bound := map[string]bool{}, map[string]int{}, map[int]int{}
				var order []int
				for step := 0; len(ms.vn.Queue) > 0; step++ {
					i := 0
					if step < cf.depth && len(ms.vn.Queue) > 1 {
						i = c.Pick("pick", len(ms.vn.Queue))
					}
					order = append(order, i)
					fl := ms.vn.Queue[i]
					if an := parseAnnouncement(fl.Data); an != nil {
						c09Hygiene(c, ms, fl, an, seenPath, perAnn, bound)
					}
					if _, r := ms.vn.Deliver(i); r.Panicked {
						c.Fatalf("panic: %v", ms.vn.Panics)
					}
					if step > 5000 {
						c.Fatalf("flood does not terminate")
					}
				}
				c.Note("schedule %v", order)
				c09Reach(c, ms, true)
				c.Eval(fmt.Sprintf("%s|%v", cf.name, order), cf.topo.hasCycle() || cf.topo.n >= 3, func() any {
					return map[string]any{"topology": cf.topo.String(), "schedule_prefix": fmt.Sprint(order[:min(len(order), cf.depth)])}
				})
			})
		})
	}
}
