package props

// C07 — Control plane: only messages authenticated as their source change router state.
//
// Generator: a victim router V in a converged honest mesh (3..6 real routers)
// with extra legitimate state (end-to-end keys with X, connection states, a
// pending hello); optionally X joins late so that V has never heard of it
// (first contact). A genuine ping of a generated kind (hello request/response,
// pong request/response, error codes 0-4 and unknown, disconnect going-down /
// list, announce) is produced by X's real router and captured at V's inbound
// link. It is then delivered as is (positive control) or altered: byte flip at
// a classified position, source rewritten to a known/unknown router,
// destination rewritten, header key swapped for the attacker's, re-sealed by an
// attacker with its own key while claiming X, exact replay after 0..n
// intervening legitimate pings.
// Oracle: snapshot of V's protected state (session keys and MTU, routing table,
// connection states, stored public info and offline flag, pending hello)
// before == after for every attack; positive controls change only what their
// type may change, and only concerning X.

import (
	"fmt"
	"net/netip"
	"strings"
	"testing"
	"time"

	"github.com/fxamacker/cbor/v2"

	"github.com/mycoria/mycoria/config"
	"github.com/mycoria/mycoria/frame"
	"github.com/mycoria/mycoria/m"

	"verif/core"
	"verif/ids"
	"verif/vnet"
)

var c07Opts = core.Opts{ID: "C07", Quick: 1500, Thorough: 40000}

var c07Kinds = []string{"hello-request", "hello-response", "pong-request", "pong-response", "error-generic", "error-unreachable",
	"error-no-keys", "error-access-denied", "error-rejected", "error-unknown-code", "disconnect-going-down", "disconnect-list", "announce",
	// The router's own disconnect pings go to the all-routers address in a frame
	// type that receivers route onward instead of handling; the handler is reached
	// by an (equally authentic) disconnect ping addressed to the victim itself.
	"disconnect-going-down-unicast", "disconnect-list-unicast"}

type c07Env struct {
	c   *core.Case
	ms  *mesh
	V   *vnet.Node
	X   *vnet.Node
	all []netip.Addr
}

// hold runs action, delivers every frame that is not for V, and returns the frames addressed to V's links.
func (e *c07Env) hold(action func()) []*vnet.InFlight {
	action()
	vn := e.ms.vn
	for guard := 0; ; guard++ {
		idx := -1
		for i, fl := range vn.Queue {
			if fl.To != e.V {
				idx = i
				break
			}
		}
		if idx < 0 {
			break
		}
		if guard > 100000 {
			e.c.Fatalf("traffic does not settle")
		}
		_, r := vn.Deliver(idx)
		if r.Panicked {
			e.c.Fatalf("worker panic during legitimate traffic: %v", vn.Panics)
		}
	}
	held := vn.Queue
	vn.Queue = nil
	return held
}

// deliverAll delivers everything (including to V).
func (e *c07Env) deliverAll() {
	n := e.ms.vn.Run(100000, nil, func(fl *vnet.InFlight, r vnet.Result) {
		if r.Panicked {
			e.c.Fatalf("worker panic during legitimate traffic: %v", e.ms.vn.Panics)
		}
	})
	_ = n
}

func c07TunPacket(src, dst netip.Addr, proto byte, sport, dport uint16) []byte {
	pkt := make([]byte, 60)
	pkt[0] = 6 << 4
	pkt[6] = proto
	pkt[7] = 64
	s, d := src.As16(), dst.As16()
	copy(pkt[8:24], s[:])
	copy(pkt[24:40], d[:])
	pkt[40], pkt[41] = byte(sport>>8), byte(sport)
	pkt[42], pkt[43] = byte(dport>>8), byte(dport)
	return pkt
}

// pingParts splits ping message data (header as a generic CBOR map).
func c07PingParts(msg []byte) (hdr pingHdr, hdrLen int, body []byte, ok bool) {
	if len(msg) < 3 || len(msg) < 2+int(msg[1]) {
		return nil, 0, nil, false
	}
	hdrLen = int(msg[1])
	hdr = pingHdr{}
	if err := cbor.Unmarshal(msg[2:2+hdrLen], &hdr); err != nil {
		return nil, 0, nil, false
	}
	return hdr, hdrLen, msg[2+hdrLen:], true
}

func c07PingMsg(hdr pingHdr, body []byte) []byte {
	hd, err := cbor.Marshal(hdr)
	if err != nil || len(hd) > 255 {
		panic("ping header")
	}
	out := append([]byte{1, byte(len(hd))}, hd...)
	return append(out, body...)
}

// craft builds a ping from `from` to `to` with the given header fields, sealed
// by from's real session (i.e. authenticated as from).
func c07Craft(from, to *vnet.Node, mt frame.MessageType, pingType string, code uint8, followUp bool, body []byte) (frame.Frame, error) {
	hd := pingHeaderFor(from.ID, 0x1234567, pingType, code, followUp)
	msg := append(append([]byte{1, byte(len(hd))}, hd...), body...)
	f, err := from.Builder.NewFrameV1(from.IP(), to.IP(), mt, nil, msg, nil)
	if err != nil {
		return nil, err
	}
	s := from.St.GetSession(to.IP())
	if s == nil {
		return nil, fmt.Errorf("no session")
	}
	if err := f.Seal(s); err != nil {
		return nil, err
	}
	return f, nil
}

func TestC07(t *testing.T) {
	core.Run(t, c07Opts, func(c *core.Case) {
		topo := genTopo(c, 3, 6)
		ms := buildMesh(c, topo, meshOpts{infoClass: c.Weighted("info", 3, 2), withTun: true, spread: c.Bool("spread")})
		c09Flood(c, ms, 400_000, false)
		vi := c.Int("victim", 0, topo.n-1)
		V := ms.nodes[vi]
		firstContact := c.Chance("first-contact", 1, 4)
		var X *vnet.Node
		xi := -1
		if firstContact {
			// X joins late, linked to a neighbour of V (or to V's neighbour's side), never announced.
			adj := topo.adj()
			ni := adj[vi][c.Pick("fc.neighbour", len(adj[vi]))]
			id := ids.Group("na")[c.Pick("fc.id", len(ids.Group("na")))]
			var err error
			X, err = ms.vn.AddNode("late", id, vnet.NodeOpts{WithTun: true})
			if err != nil {
				c.Fatalf("late node: %v", err)
			}
			if _, _, err := ms.vn.Connect(X, ms.nodes[ni], vnet.LinkOpts{LabelA: 99, LabelB: 98, LatA: 5, LatB: 5}); err != nil {
				c.Fatalf("late link: %v", err)
			}
			// X knows V (e.g. from stored state), V does not know X.
			if err := X.St.AddRouter(&V.ID.Addr.PublicAddress); err != nil {
				c.Fatalf("add router: %v", err)
			}
		} else {
			xi = c.Int("x", 0, topo.n-2)
			if xi >= vi {
				xi++
			}
			X = ms.nodes[xi]
		}
		env := &c07Env{c: c, ms: ms, V: V, X: X}
		for _, n := range ms.vn.Nodes {
			env.all = append(env.all, n.IP())
		}
		attackerID := ms.outsider(ids.Group("ea"), c.Pick("attacker.id", len(ids.Group("ea"))))
		unknownID := ms.outsider(ids.Group("af"), c.Pick("unknown.id", len(ids.Group("af"))))
		env.all = append(env.all, attackerID.Addr.IP, unknownID.Addr.IP)
		c.Note("topology %s victim=n%d x=%s firstContact=%v", topo, vi, X.Name, firstContact)

		// Extra legitimate state at V.
		others := []*vnet.Node{}
		for _, n := range ms.nodes {
			if n != V {
				others = append(others, n)
			}
		}
		if !firstContact && c.Bool("pre.keys") {
			_, _ = X.Rtr.HelloPing.Send(V.IP())
			env.deliverAll()
			X.Rtr.VerifExpireHello(V.IP())
		}
		U := others[c.Pick("pre.conn.dst", len(others))]
		for k, n := 0, c.Int("pre.conns", 0, 3); k < n; k++ {
			pkt := c07TunPacket(V.IP(), U.IP(), 6, uint16(1000+k), 80)
			ps := V.Builder.GetPooledSlice(len(pkt))
			copy(ps, pkt)
			_ = V.Rtr.VerifHandleTunPacket(ps[:len(pkt)], true)
			env.deliverAll()
		}
		if c.Bool("pre.pending-hello") && len(others) > 1 {
			Z := others[c.Pick("pre.hello.dst", len(others))]
			if Z != X {
				_, _ = V.Rtr.HelloPing.Send(Z.IP())
				ms.vn.Queue = nil // the request is lost, the state stays pending
			}
		}

		// Extra routes in V's table ("for all routing-table contents when a
		// disconnect arrives"): gossip routes over generated relay sequences of mesh
		// routers, so that X also shows up in the middle of paths and unrelated
		// routes sit before and after them.
		if !firstContact {
			peers := topo.adj()[vi]
			for k, n := 0, c.Int("pre.extra-routes", 0, 8); k < n; k++ {
				dst := others[c.Pick("extra.dst", len(others))]
				nh := ms.nodes[peers[c.Pick("extra.nh", len(peers))]]
				hops := []m.SwitchHop{{Router: V.IP(), ForwardLabel: V.Links[nh.IP()].Label, Delay: 3}}
				seen := map[netip.Addr]bool{V.IP(): true, dst.IP(): true}
				cur := nh
				for r, nr := 0, c.Int("extra.relays", 1, 4); r < nr && cur != dst; r++ {
					if seen[cur.IP()] {
						break
					}
					seen[cur.IP()] = true
					hops = append(hops, m.SwitchHop{Router: cur.IP(), ForwardLabel: m.SwitchLabel(c.Int("extra.f", 1, 120)), ReturnLabel: m.SwitchLabel(c.Int("extra.r", 1, 120)), Delay: uint16(c.Int("extra.d", 1, 40))})
					cur = others[c.Pick("extra.relay", len(others))]
				}
				if len(hops) < 2 {
					continue
				}
				hops = append(hops, m.SwitchHop{Router: dst.IP(), ReturnLabel: m.SwitchLabel(c.Int("extra.rl", 1, 120))})
				e := m.RoutingTableEntry{DstIP: dst.IP(), NextHop: hops[1].Router, Source: m.RouteSourceGossip, Expires: time.Now().Add(time.Hour)}
				e.Path.Hops = hops
				_, _ = V.Rtr.Table().AddRoute(e)
			}
		}

		// Produce the genuine ping.
		kind := c.Weighted("kind", 3, 2, 1, 1, 1, 2, 2, 2, 2, 1, 2, 2, 4, 4, 3)
		if firstContact {
			kind = core.OneOf(c, "kind.fc", 0, 2, 4, 5, 9)
		}
		kindName := c07Kinds[kind]
		xKeyed := func() bool {
			s := X.St.GetSession(V.IP())
			return s != nil && s.Encryption().IsSetUp()
		}
		sendCrafted := func(mt frame.MessageType, pingType string, code uint8, followUp bool, body []byte) func() {
			return func() {
				f, err := c07Craft(X, V, mt, pingType, code, followUp, body)
				if err != nil {
					return
				}
				if err := X.Rtr.RouteFrame(f); err != nil {
					f.ReturnToPool()
				}
			}
		}
		// A key setup on a session that already has keys is something no caller in
		// the repository does (setups start from the tun path of a router without
		// keys, see C14 in DESIGN.md 10.2); what the two routers hold afterwards is
		// only asserted for setups between routers that had no keys.
		vKeyedBefore := func() bool {
			s := V.St.GetSession(X.IP())
			return s != nil && s.Encryption().IsSetUp()
		}()
		rekeyOfEstablished := (kindName == "hello-request" || kindName == "hello-response") && (xKeyed() || vKeyedBefore)
		var held []*vnet.InFlight
		switch kindName {
		case "hello-request":
			held = env.hold(func() { _, _ = X.Rtr.HelloPing.Send(V.IP()) })
		case "hello-response":
			V.Rtr.VerifExpireHello(X.IP())
			held = env.hold(func() { _, _ = V.Rtr.HelloPing.Send(X.IP()) })
		case "pong-request":
			held = env.hold(func() { _, _, _ = X.Rtr.PingPong.Send(V.IP(), false, 0) })
		case "pong-response":
			held = env.hold(func() { _, _, _ = V.Rtr.PingPong.Send(X.IP(), false, 0) })
		case "error-generic":
			held = env.hold(func() { _ = X.Rtr.ErrorPing.SendGeneric(V.IP(), "something went wrong") })
		case "error-unreachable":
			held = env.hold(func() { _ = X.Rtr.ErrorPing.SendUnreachable(V.IP(), U.IP()) })
		case "error-no-keys":
			held = env.hold(func() { _ = X.Rtr.ErrorPing.SendNoEncryptionKeys(V.IP()) })
		case "error-access-denied":
			if !xKeyed() {
				_, _ = X.Rtr.HelloPing.Send(V.IP())
				env.deliverAll()
			}
			held = env.hold(func() { _ = X.Rtr.ErrorPing.SendAccessDenied(V.IP(), U.IP(), 6, 80) })
		case "error-rejected":
			if !xKeyed() {
				_, _ = X.Rtr.HelloPing.Send(V.IP())
				env.deliverAll()
			}
			held = env.hold(func() { _ = X.Rtr.ErrorPing.SendRejected(V.IP(), U.IP(), 6, 80) })
		case "error-unknown-code":
			held = env.hold(sendCrafted(frame.RouterPing, "error", uint8(c.Int("unknown.code", 5, 255)), false, []byte{0xf6}))
		case "disconnect-going-down":
			held = env.hold(func() { _ = X.Rtr.DisconnectPing.Send(true, nil) })
		case "disconnect-list":
			held = env.hold(func() {
				_ = X.Rtr.DisconnectPing.Send(false, []netip.Addr{others[c.Pick("disc.peer", len(others))].IP()})
			})
		case "announce":
			held = env.hold(func() { _ = X.Rtr.VerifAnnounce() })
		case "disconnect-going-down-unicast":
			body, _ := cbor.Marshal(map[string]any{"off": true})
			held = env.hold(sendCrafted(frame.RouterPing, "disconnect", 0, false, body))
		case "disconnect-list-unicast":
			body, _ := cbor.Marshal(map[string]any{"d": []netip.Addr{others[c.Pick("disc.peer", len(others))].IP()}})
			held = env.hold(sendCrafted(frame.RouterPing, "disconnect", 0, false, body))
		}
		// Keep only frames that originate at X.
		var genuine []*vnet.InFlight
		for _, fl := range held {
			if len(fl.Data) > 48 && netip.AddrFrom16([16]byte(fl.Data[16:32])) == X.IP() {
				genuine = append(genuine, fl)
			}
		}
		if len(genuine) == 0 {
			c.Class("no-genuine-frame-reached-victim/" + kindName)
			c.Eval("none|"+kindName, false, nil)
			return
		}
		G := genuine[c.Pick("genuine.pick", len(genuine))]
		data := append([]byte(nil), G.Data...)
		link := G.Link
		parts := c08PartsOf(data)
		mt := frame.MessageType(data[4])
		encrypted := mt.IsEncrypted()
		if encrypted {
			parts.apxStart = parts.authStart + 16
		}

		// reseal re-seals the genuine ping under the attacker's key, still claiming X
		// as the source (optionally with the attacker's key in the ping header).
		genuineData := append([]byte(nil), data...)
		reseal := func(ownKey bool, aheadMs int) []byte {
			msg := genuineData[parts.msgStart:parts.authStart]
			hdr, _, body, ok := c07PingParts(msg)
			if !ok {
				return nil
			}
			if ownKey {
				hdr["k"] = []byte(attackerID.Addr.PublicKey)
				delete(hdr, "e")
				if attackerID.Addr.Easing != 0 {
					hdr["e"] = attackerID.Addr.Easing
				}
			}
			b := frame.NewFrameBuilder()
			f, err := b.NewFrameV1(X.IP(), V.IP(), mt, nil, c07PingMsg(hdr, body), genuineData[parts.apxStart:])
			if err != nil {
				return nil
			}
			defer f.ReturnToPool()
			f.SetTTL(0)
			f.SetSequenceTime(time.Now().Add(time.Duration(aheadMs) * time.Millisecond))
			_ = f.SignRaw(attackerID.Addr.PrivateKey)
			f.SetTTL(20)
			d, _ := f.FrameDataWithMargins(0, 0)
			return append([]byte(nil), d...)
		}
		resealMs := 0
		plantsKey := false // the forgery carries the attacker's key for X's address

		// Choose the alteration.
		graftW := 0
		if kindName == "announce" && len(data) > parts.apxStart {
			graftW = 6 // the announcement reached the victim over a relay: it carries hop records
		}
		// Two copies at once: only for pings addressed to the victim alone (copies
		// of flooded pings are tolerated by design).
		parW := 0
		if stillUnicast := netip.AddrFrom16([16]byte(data[32:48])) == V.IP(); stillUnicast {
			parW = 5
		}
		alt := c.Weighted("alter", 4, 10, 4, 3, 3, 4, 4, graftW, parW)
		altName := "genuine"
		authentic := true // whether the delivered message is still authentic as X's
		replay := false
		between := 0
		switch alt {
		case 0:
		case 1: // byte flip
			i := c.Uniform("flip.pos", 0, len(data)-1)
			if c.Bool("flip.header") {
				i = c.Uniform("flip.hdrpos", 0, 47)
			}
			bit := c.Uniform("flip.bit", 0, 7)
			region := "protected"
			switch {
			case i == 1:
				region = "ttl"
			case i == 2:
				region = "flow"
			case i >= parts.apxStart && kindName != "announce":
				region = "appendix"
			}
			if i == 1 && data[1]^(1<<bit) == 0 {
				bit = (bit + 1) % 8 // keep the TTL non-zero
			}
			data[i] ^= 1 << bit
			altName = "flip-" + region
			authentic = region != "protected"
			if i >= 32 && i < 48 || i == 4 || i == 0 {
				// destination / type / version changed: the frame is not a ping for V any more.
				altName = "flip-routing-field"
			}
		case 2: // source rewritten
			var y netip.Addr
			if c.Bool("src.known") {
				y = others[c.Pick("src.node", len(others))].IP()
				if y == X.IP() {
					y = attackerID.Addr.IP
				}
			} else {
				y = unknownID.Addr.IP
			}
			b := y.As16()
			copy(data[16:32], b[:])
			altName, authentic = "source-rewritten", false
		case 3: // destination rewritten
			w := others[c.Pick("dst.node", len(others))].IP().As16()
			copy(data[32:48], w[:])
			altName, authentic = "destination-rewritten", false
		case 4: // header key swapped for the attacker's key, X's signature kept
			if !encrypted {
				msg := data[parts.msgStart:parts.authStart]
				if hdr, _, body, ok := c07PingParts(msg); ok {
					hdr["k"] = []byte(attackerID.Addr.PublicKey)
					nm := c07PingMsg(hdr, body)
					if len(nm) == len(msg) {
						copy(data[parts.msgStart:], nm)
						altName, authentic = "header-key-swapped", false
						plantsKey = true
					}
				}
			}
		case 5: // re-sealed by the attacker with its own key, claiming X
			if !encrypted {
				ownKey := c.Bool("reseal.ownkey-in-header")
				resealMs = c.Int("reseal.ms", 1, 5000)
				if d := reseal(ownKey, resealMs); d != nil {
					data = d
					altName, authentic = "re-sealed-by-attacker", false
					plantsKey = ownKey
				}
			}
		case 6:
			replay = true
			altName, authentic = "exact-replay", false
		case 7: // the hop records the victim verified for one announcement, attached to a later announcement of X that the relay never handled
			if res := ms.vn.Inject(V, link, G.Data); res.Panicked {
				c.Fatalf("panic on genuine %s: %v", kindName, ms.vn.Panics)
			}
			env.deliverAll()
			time.Sleep(2 * time.Millisecond)
			later := env.hold(func() { _ = X.Rtr.VerifAnnounce() })
			for _, fl := range later {
				if len(fl.Data) > 48 && netip.AddrFrom16([16]byte(fl.Data[16:32])) == X.IP() && frame.MessageType(fl.Data[4]) == mt {
					p2 := c08PartsOf(fl.Data)
					if p2.apxStart > len(fl.Data) {
						continue
					}
					data = append(append([]byte(nil), fl.Data[:p2.apxStart]...), genuineData[parts.apxStart:]...)
					altName, authentic = "hop-records-of-an-earlier-announcement-grafted", false
					break
				}
			}
		}
		c.Note("kind=%s alteration=%s authentic=%v keyed=%v", kindName, altName, authentic, xKeyed())

		if alt == 8 {
			// The genuine ping reaches the victim twice at the same moment (two
			// links, two workers); one worker is held at a generated schedule point
			// while the other runs. At most one copy may be processed; afterwards
			// the two routers must not both hold keys that do not fit.
			at := core.OneOf(c, "par.point", "", "instance.Identity", "instance.State", "instance.Config", "storage.GetRouter", "instance.RoutingTable")
			skip := c.Int("par.call", 0, 4)
			if at == "" {
				V.Gate.Arm(c.Int("par.any-call", 0, 12))
			} else {
				V.Gate.ArmAt(at, skip)
			}
			res, held, ok := ms.vn.InjectPar(V, []*vnet.VLink{link, link}, [][]byte{data, append([]byte(nil), data...)})
			if !ok {
				c.Class("inconclusive-workers-did-not-finish")
				return
			}
			if res.Panicked {
				c.Fatalf("two copies of a %s ping at once panicked a worker of the victim: %v", kindName, ms.vn.Panics)
			}
			processed := res.Escalated - len(res.RouterErrs)
			if processed > 1 {
				c.Fatalf("two copies of one %s ping handled by two workers at once: both were processed (held at %q, handler errors %v)\nheld call: %s", kindName, V.Gate.Point, res.RouterErrs, V.Gate.Stack)
			}
			env.deliverAll()
			sV, sX := V.St.GetSession(X.IP()), X.St.GetSession(V.IP())
			if rekeyOfEstablished {
				c.Class("two-copies-at-once/keys-not-compared-setup-on-a-keyed-session")
			} else if sV != nil && sX != nil && sV.Encryption().IsSetUp() && sX.Encryption().IsSetUp() {
				w := &c14World{c: c, vn: ms.vn, n: [2]*vnet.Node{X, V}}
				for from := 0; from < 2; from++ {
					if err := w.traffic(from); err != nil {
						c.Fatalf("after two copies of one %s ping were handled at once (held at %q), both routers consider encryption established but traffic from %s does not unseal at the other: %v\nheld call: %s\nhandler errors: %v", kindName, V.Gate.Point, w.n[from].Name, err, V.Gate.Stack, res.RouterErrs)
					}
				}
			}
			if held {
				c.Class("two-copies-at-once/held-at-" + V.Gate.Point)
			}
			c.Class("two-copies-at-once/" + kindName)
			c.Eval(fmt.Sprintf("par|%s|%v|%s", kindName, firstContact, V.Gate.Point), held, func() any {
				return map[string]any{"kind": kindName, "alteration": "two copies at once", "held_at": V.Gate.Point, "processed": processed, "first_contact": firstContact}
			})
			ms.vn.Queue = nil
			return
		}

		if replay {
			// Deliver the genuine one, then 0..n other legitimate pings, then the copy.
			res := ms.vn.Inject(V, link, G.Data)
			if res.Panicked {
				c.Fatalf("panic on genuine %s: %v", kindName, ms.vn.Panics)
			}
			env.deliverAll()
			for k, n := 0, c.Int("replay.between", 0, 4); k < n; k++ {
				// Signing timestamps have millisecond resolution and a copy that carries
				// the newest timestamp is tolerated for hop pings: keep distinct
				// messages of X at least a millisecond apart, as real traffic is.
				time.Sleep(2 * time.Millisecond)
				// Arbitrary genuine traffic of X in between (each kind changes what it
				// may change; none of it makes the old ping fresh again).
				switch core.OneOf(c, "replay.between.kind", "pong", "pong", "error-no-keys", "going-down", "announce", "error-generic", "victim-key-setup") {
				case "pong":
					_, _, _ = X.Rtr.PingPong.Send(V.IP(), false, 0)
				case "error-no-keys":
					_ = X.Rtr.ErrorPing.SendNoEncryptionKeys(V.IP())
				case "going-down":
					_ = X.Rtr.DisconnectPing.Send(true, nil)
				case "announce":
					_ = X.Rtr.VerifAnnounce()
				case "victim-key-setup":
					// V sets up fresh end-to-end keys with X (V initiates).
					V.Rtr.VerifExpireHello(X.IP())
					_, _ = V.Rtr.HelloPing.Send(X.IP())
				default:
					_ = X.Rtr.ErrorPing.SendGeneric(V.IP(), "between")
				}
				env.deliverAll()
				between++
			}
		}

		if replay && between > 0 {
			time.Sleep(2 * time.Millisecond)
		}
		// A copy may reach the victim over the link of another peer.
		if replay && c.Chance("replay.other-link", 3, 4) {
			var other *vnet.VLink
			for ip, l := range V.Links {
				if l != link && (other == nil || ip.Less(other.Peer())) {
					other = l
				}
			}
			if other != nil {
				link = other
				c.Class("replay-over-another-peers-link")
			}
		}
		before := snapshotNode(V, env.all)
		qBefore := len(ms.vn.Queue)
		res := ms.vn.Inject(V, link, data)
		if res.Panicked {
			c.Fatalf("%s/%s panicked a worker of the victim: %v", kindName, altName, ms.vn.Panics)
		}
		after := snapshotNode(V, env.all)
		emitted := ms.vn.Queue[qBefore:]
		diff := diffSnap(before, after, true)
		// A first-contact record (address -> self-certified key, nothing else) is not protected state.
		diff = c07DropBlankRecords(diff)

		stillForV := netip.AddrFrom16([16]byte(data[32:48])) == V.IP() || netip.AddrFrom16([16]byte(data[32:48])).String() == "fd00::4"
		switch {
		case replay && kindName == "announce" && between == 0:
			// Exact duplicate of the newest announcement: tolerated, table unchanged modulo expiry.
			if d := c07DropBlankRecords(diffSnap(before, after, false)); len(d) > 0 {
				c.Fatalf("replayed announcement changed the victim's state: %v", d)
			}
		case !authentic:
			if len(diff) > 0 {
				c.Fatalf("%s ping altered by %q changed the victim's state: %v", kindName, altName, diff)
			}
			if stillForV && altName != "flip-routing-field" {
				for _, e := range emitted {
					if netip.AddrFrom16([16]byte(e.Data[16:32])) == V.IP() && kindName == "hello-request" {
						c.Fatalf("%s ping altered by %q made the victim answer (frame type %d to %s)", kindName, altName, e.Data[4], e.To.Name)
					}
				}
			}
			c.Class("attack-rejected/" + altName)
			if plantsKey && c.Chance("followup", 2, 3) {
				// A second forged ping of the same forged identity: the rejected first
				// one must not have left anything behind that makes this one pass.
				if d2 := reseal(true, resealMs+c.Int("followup.ms", 1, 2000)); d2 != nil {
					res2 := ms.vn.Inject(V, link, d2)
					if res2.Panicked {
						c.Fatalf("%s/%s follow-up panicked a worker of the victim: %v", kindName, altName, ms.vn.Panics)
					}
					after2 := snapshotNode(V, env.all)
					if d := c07DropBlankRecords(diffSnap(before, after2, true)); len(d) > 0 {
						c.Fatalf("after a rejected %s ping altered by %q, a second ping sealed with the attacker's key for the same source changed the victim's state: %v", kindName, altName, d)
					}
					c.Class("attack-followup-rejected/" + altName)
				}
			}
		default:
			// Authentic: may change only what this kind may change, and only about X.
			for _, d := range diff {
				if !c07Allowed(kindName, d, X.IP(), U.IP()) {
					c.Fatalf("authentic %s ping from %s changed state it must not touch: %s (all changes: %v)", kindName, X.Name, d, diff)
				}
			}
			if len(diff) > 0 {
				c.Class("authentic-changed-state/" + kindName)
			} else {
				c.Class("authentic-no-change/" + kindName)
			}
		}
		ms.vn.Queue = nil
		// Non-trivial: an attack derived from a ping whose legitimate twin changes state.
		changing := map[string]bool{"hello-request": true, "hello-response": true, "error-unreachable": true, "error-no-keys": true,
			"error-access-denied": true, "error-rejected": true, "disconnect-going-down-unicast": true, "disconnect-list-unicast": true, "announce": true}
		nt := !authentic && changing[kindName]
		c.Eval(fmt.Sprintf("%s|%s|fc=%v", kindName, altName, firstContact), nt, func() any {
			return map[string]any{"ping": kindName, "alteration": altName, "first_contact": firstContact, "topology": topo.String(), "state_changes": diff}
		})
	})
}

func c07DropBlankRecords(diff []string) []string {
	var out []string
	for _, d := range diff {
		if strings.HasPrefix(d, "stored[") && strings.Contains(d, "<none> -> \"null|offline=false") {
			continue
		}
		if strings.HasPrefix(d, "session[") && strings.Contains(d, "<none> -> \"setup=false in= out= mtu=0\"") {
			continue
		}
		out = append(out, d)
	}
	return out
}

// c07Allowed: may an authentic ping of this kind from x cause this change?
func c07Allowed(kind, d string, x, u netip.Addr) bool {
	aboutX := strings.Contains(d, x.String())
	switch kind {
	case "hello-request":
		return strings.HasPrefix(d, "session["+x.String()+"]")
	case "hello-response":
		return strings.HasPrefix(d, "session["+x.String()+"]") || strings.HasPrefix(d, "hello["+x.String()+"]")
	case "error-no-keys":
		return strings.HasPrefix(d, "session["+x.String()+"]")
	case "error-unreachable", "error-access-denied", "error-rejected":
		return strings.HasPrefix(d, "connection states")
	case "disconnect-going-down", "disconnect-list", "disconnect-going-down-unicast", "disconnect-list-unicast":
		if strings.HasPrefix(d, "table -") {
			return aboutX
		}
		return strings.HasPrefix(d, "stored["+x.String()+"]")
	case "announce":
		if strings.HasPrefix(d, "table ") {
			return strings.Contains(d, "dst="+x.String()+" ")
		}
		return strings.HasPrefix(d, "stored["+x.String()+"]")
	}
	return false
}

var _ = config.Store{}
