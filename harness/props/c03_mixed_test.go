package props

// C03, both classes on one long-lived session pair.
//
// Generator: one keyed pair a -> b whose regular numbering is fresh or stands
// inside the last 256 numbers before the 32-bit wrap (never crossing it: the
// rollover itself is C15's), regular and priority frames sealed in any mix,
// delivered in order, held back and delivered late, re-delivered; in between b
// sends traffic of its own to a, which may take b's outgoing numbering across
// its wrap (b's outgoing key rolls over; b's incoming side is untouched by it).
// Oracle: one reference model {accepted set, newest} per class.

import (
	"encoding/binary"
	"fmt"
	"strings"
	"testing"

	"github.com/mycoria/mycoria/frame"
	"github.com/mycoria/mycoria/state"

	"verif/core"
)

type c03Sealed struct {
	data []byte
	seq  uint32
	cls  int // 0 regular, 1 priority
	held bool
}

func TestC03Mixed(t *testing.T) {
	core.Run(t, core.Opts{ID: "C03", Quick: 3000, Thorough: 100000}, func(c *core.Case) {
		p := c03NewPair(c)
		start := uint32(0)
		age := c.Weighted("ab.age", 2, 3, 2)
		models := [2]*c03Model{newC03Model(), newC03Model()}
		names := [2]string{"regular", "priority"}
		var all []*c03Sealed
		var hist []string
		if age == 2 {
			// The pair has wrapped once already: five frames across the first wrap,
			// delivered in order (they stay available for later re-deliveries), then
			// a long time passes and the numbering stands before its second wrap.
			h := state.EncryptionSessionTestHelper{EncryptionSession: p.sAB.Encryption()}
			h.ReglSetOut(0xFFFF_FFFF - 2)
			for k := 0; k < 5; k++ {
				f, err := p.builder.NewFrameV1(p.pa.ID.Addr.IP, p.pb.ID.Addr.IP, frame.NetworkTraffic, nil, []byte(fmt.Sprintf("first-wrap-%d", k)), nil)
				if err != nil {
					c.Fatalf("new frame: %v", err)
				}
				if err := f.Seal(p.sAB); err != nil {
					c.Fatalf("seal: %v", err)
				}
				data, _ := f.FrameDataWithMargins(0, 0)
				sd := &c03Sealed{data: append([]byte(nil), data...), cls: 0}
				sd.seq = binary.BigEndian.Uint32(sd.data[8:12])
				f.ReturnToPool()
				if err := c03UnsealCopy(p.builder, sd.data, p.sBA); err != nil {
					c.Fatalf("in-order frame %#x across the first wrap rejected: %v", sd.seq, err)
				}
				all = append(all, sd)
				models[0].accepted[sd.seq] = true
			}
			hist = append(hist, "5 frames across the first wrap")
			c.Class("mixed/second-wrap-ahead")
		}
		if age >= 1 {
			start = 0xFFFF_FF00 - 3 + uint32(c.Int("ab.at", 0, 120))
			h := state.EncryptionSessionTestHelper{EncryptionSession: p.sAB.Encryption()}
			h.ReglSetOut(start)
			c.Class("mixed/regular-numbering-before-the-wrap")
		}
		revNear := c.Weighted("ba.age", 2, 3) == 1
		if revNear {
			h := state.EncryptionSessionTestHelper{EncryptionSession: p.sBA.Encryption()}
			h.ReglSetOut(0xFFFF_FFFF - uint32(c.Int("ba.at", 1, 6))) // at least one frame before the wrap: a receiver that saw none cannot know of it
		}
		revSent, revWrapped := 0, false

		seal := func(cls int) *c03Sealed {
			mt := frame.NetworkTraffic
			if cls == 1 {
				mt = core.OneOf(c, "prio.type", frame.RouterCtrl, frame.SessionCtrl)
			}
			f, err := p.builder.NewFrameV1(p.pa.ID.Addr.IP, p.pb.ID.Addr.IP, mt, nil, []byte(fmt.Sprintf("mixed-%04d", len(all))), nil)
			if err != nil {
				c.Fatalf("new frame: %v", err)
			}
			if err := f.Seal(p.sAB); err != nil {
				c.Fatalf("seal: %v", err)
			}
			data, _ := f.FrameDataWithMargins(0, 0)
			s := &c03Sealed{data: append([]byte(nil), data...), cls: cls}
			s.seq = binary.BigEndian.Uint32(s.data[8:12])
			f.ReturnToPool()
			all = append(all, s)
			return s
		}
		deliver := func(s *c03Sealed, how string) {
			mo := models[s.cls]
			v := mo.verdict(s.seq)
			err := c03UnsealCopy(p.builder, s.data, p.sBA)
			hist = append(hist, fmt.Sprintf("%s %s#%d", how, names[s.cls][:4], s.seq))
			switch {
			case err == nil && v < 0:
				c.Fatalf("%s frame %#x accepted a second time; history: %s", names[s.cls], s.seq, strings.Join(hist, ", "))
			case err != nil && v > 0:
				c.Fatalf("%s frame %#x rejected (%v) although it is new and within the window of newest=%#x; history: %s", names[s.cls], s.seq, err, mo.newest, strings.Join(hist, ", "))
			}
			if err == nil {
				mo.accept(s.seq)
			}
			s.held = false
		}

		n := c.Int("len", 1, 60)
		regular := 0
		for i := 0; i < n; i++ {
			op := c.Weighted("op", 25, 20, 8, 8, 25, 14, 5)
			if regular >= 100 && (op == 0 || op == 2) {
				op = 1
			}
			switch op {
			case 0, 1: // sealed and delivered at once
				if op == 0 {
					regular++
				}
				deliver(seal(op), "send")
			case 2, 3: // sealed, held back
				if op == 2 {
					regular++
				}
				s := seal(op - 2)
				s.held = true
				hist = append(hist, fmt.Sprintf("hold %s#%d", names[s.cls][:4], s.seq))
			case 4: // a held frame arrives late, or any frame is presented again
				if len(all) == 0 {
					continue
				}
				var held []*c03Sealed
				for _, s := range all {
					if s.held {
						held = append(held, s)
					}
				}
				if len(held) > 0 && c.Bool("late") {
					deliver(held[c.Pick("late.which", len(held))], "late")
				} else if c.Bool("again.recent") {
					back := min(c.Int("again.back", 1, 8), len(all))
					deliver(all[len(all)-back], "again")
				} else {
					deliver(all[c.Pick("again.which", len(all))], "again")
				}
			case 6: // a key setup that fails (unusable share) at either router: nothing changes
				share := make([]byte, 32)
				if c.Bool("badkx.short") {
					share = share[:c.Int("badkx.len", 0, 31)]
				}
				who, sess := "receiver", p.sBA
				if c.Bool("badkx.sender") {
					who, sess = "sender", p.sAB
				}
				if _, _, err := sess.Encryption().InitKeyServer(share, "ECDH-X25519/BLAKE3"); err == nil {
					c.Fatalf("a key exchange with an all-zero share of %d bytes succeeded", len(share))
				}
				hist = append(hist, "refused key exchange at the "+who)
				c.Class("mixed/refused-key-exchange-in-between")
			default: // b sends traffic of its own to a
				k := c.Int("rev.n", 1, 8)
				for j := 0; j < k; j++ {
					f, err := p.builder.NewFrameV1(p.pb.ID.Addr.IP, p.pa.ID.Addr.IP, frame.NetworkTraffic, nil, []byte("reverse traffic"), nil)
					if err != nil {
						c.Fatalf("new frame: %v", err)
					}
					if err := f.Seal(p.sBA); err != nil {
						c.Fatalf("seal of reverse traffic: %v", err)
					}
					data, _ := f.FrameDataWithMargins(0, 0)
					seq := binary.BigEndian.Uint32(data[8:12])
					cp := append([]byte(nil), data...)
					f.ReturnToPool()
					if err := c03UnsealCopy(p.builder, cp, p.sAB); err != nil {
						c.Fatalf("in-order reverse frame %#x rejected: %v; history: %s", seq, err, strings.Join(hist, ", "))
					}
					revSent++
					if revNear && seq < 0x100 {
						revWrapped = true
					}
				}
				hist = append(hist, fmt.Sprintf("reverse x%d", k))
			}
		}
		both := models[0].any && models[1].any
		nt := both && (models[0].dupAfterLarger || models[1].dupAfterLarger || models[0].edge || models[1].edge)
		c.Eval("mixed:"+fmt.Sprint(start)+":"+strings.Join(hist, ","), nt, func() any {
			return map[string]any{"level": "frame-mixed-classes", "regular_numbering_starts_at": fmt.Sprintf("%#x", start), "history": strings.Join(hist, ", ")}
		})
		if both {
			c.Class("mixed/both-classes-delivered")
		}
		if revWrapped {
			c.Class("mixed/receiver-outgoing-key-rolled-over")
		}
		if revSent > 0 {
			c.Class("mixed/with-reverse-traffic")
		}
	})
}
