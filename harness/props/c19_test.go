package props

// C19 — Name resolution: .myco only, fixed precedence, learned mappings cannot shadow.
//
// Generator: configuration with 0-5 resolve entries (incl. upper case, trailing
// dot, one IDN name), 0-5 friends (lower-case names incl. ones colliding with
// resolve entries, built-in and forbidden names), stored mappings for names
// colliding with every other source and for fresh names; queries for the
// configured names and case/trailing-dot variants, built-in and forbidden
// names, non-.myco names, the bare TLD; type over the 16-bit space weighted to
// the address types; class IN/ANY/CH/other. The message is packed, run through
// the acceptance function and unpacking miekg/dns's server applies, and handed
// to the real ServeDNS with a recording ResponseWriter.
// Oracle: reference precedence computed from the configuration inputs.

import (
	"fmt"
	"net"
	"net/http"
	"net/http/httptest"
	"net/netip"
	"net/url"
	"sort"
	"strings"
	"sync"
	"testing"
	"time"

	mdns "github.com/miekg/dns"

	"github.com/mycoria/mycoria/api/dns"
	"github.com/mycoria/mycoria/config"
	"github.com/mycoria/mycoria/dashboard"
	"github.com/mycoria/mycoria/mgr"
	"github.com/mycoria/mycoria/router"
	"github.com/mycoria/mycoria/storage"

	"verif/core"
	"verif/ids"
	"verif/vnet"
)

var c19Opts = core.Opts{ID: "C19", Quick: 6000, Thorough: 300000}

// c19Inst is what the dashboard needs of an instance.
type c19Inst struct {
	*vnet.Node
	srv *dns.Server
}

func (i *c19Inst) Storage() storage.Storage { return i.Node.Store }
func (i *c19Inst) DNS() *dns.Server         { return i.srv }
func (i *c19Inst) Router() *router.Router   { return i.Node.Rtr }

type c19Conn struct{}

func (c19Conn) ReadFrom([]byte) (int, net.Addr, error)    { return 0, nil, net.ErrClosed }
func (c19Conn) WriteTo(b []byte, _ net.Addr) (int, error) { return len(b), nil }
func (c19Conn) Close() error                              { return nil }
func (c19Conn) LocalAddr() net.Addr                       { return &net.UDPAddr{IP: net.IPv6loopback, Port: 53} }
func (c19Conn) SetDeadline(time.Time) error               { return nil }
func (c19Conn) SetReadDeadline(time.Time) error           { return nil }
func (c19Conn) SetWriteDeadline(time.Time) error          { return nil }

type c19Writer struct {
	msgs []*mdns.Msg
}

func (w *c19Writer) LocalAddr() net.Addr         { return &net.UDPAddr{IP: net.IPv6loopback, Port: 53} }
func (w *c19Writer) RemoteAddr() net.Addr        { return &net.UDPAddr{IP: net.IPv6loopback, Port: 5353} }
func (w *c19Writer) WriteMsg(m *mdns.Msg) error  { w.msgs = append(w.msgs, m.Copy()); return nil }
func (w *c19Writer) Write(b []byte) (int, error) { return len(b), nil }
func (w *c19Writer) Close() error                { return nil }
func (w *c19Writer) TsigStatus() error           { return nil }
func (w *c19Writer) TsigTimersOnly(bool)         {}
func (w *c19Writer) Hijack()                     {}

// (two long names: 61 and 63 characters per label)
var c19Labels = []string{"alice", "bob", "srv", "files", "router", "open", "wpad", "myco", "a-b_c", "x1", "mnchen",
	"l" + strings.Repeat("o", 58) + "ng", strings.Repeat("abcdefg", 9)}

// c19LongName is a valid name of about 170 characters (four labels).
var c19LongName = strings.Repeat("x", 50) + "." + strings.Repeat("y", 55) + "." + strings.Repeat("z", 60) + ".deep"

const c19IDN, c19Puny = "münchen", "xn--mnchen-3ya"

// c19Deep are names below a label that starts with "myco": a friend is only
// its own name plus ".myco", whatever follows that in a longer name.
var c19Deep = []string{"alice.myco", "alice.mycology", "bob.myco", "srv.mycorrhiza", "files.myco.myco", "x1.mycoria"}

func c19Norm(name string) string {
	n := strings.ToLower(name)
	n = strings.TrimSuffix(n, ".")
	n = strings.ReplaceAll(n, c19IDN, c19Puny)
	return n
}

func TestC19(t *testing.T) {
	routable := ids.Routable()
	core.Run(t, c19Opts, func(c *core.Case) {
		ipOf := func(label string) netip.Addr { return routable[c.Pick(label, len(routable))].Addr.IP }
		st := config.Store{ResolveConfig: map[string]string{}}
		// model sources (normalised name -> address)
		mResolve := map[string]netip.Addr{}
		mFriend := map[string]netip.Addr{}
		mMapping := map[string]netip.Addr{}

		nResolve := c.Int("resolve.n", 0, 5)
		for i := 0; i < nResolve; i++ {
			lbl := c19Labels[c.Pick("resolve.label", len(c19Labels))]
			if c.Chance("resolve.idn", 1, 8) {
				lbl = c19IDN
			}
			if c.Chance("resolve.sub", 1, 4) {
				lbl = "www." + lbl
			}
			if c.Chance("resolve.long", 1, 10) {
				lbl = c19LongName
			}
			name := lbl + ".myco"
			switch c.Pick("resolve.variant", 4) {
			case 1:
				name = strings.ToUpper(name)
			case 2:
				name += "."
			case 3:
				name = strings.ToUpper(name[:1]) + name[1:]
			}
			if _, dup := mResolve[c19Norm(name)]; dup {
				continue // two spellings of one name: the config map order would decide; not generated.
			}
			ip := ipOf("resolve.ip")
			st.ResolveConfig[name] = ip.String()
			mResolve[c19Norm(name)] = ip
		}
		nFriends := c.Int("friends.n", 0, 5)
		for i := 0; i < nFriends; i++ {
			lbl := c19Labels[c.Pick("friend.label", len(c19Labels))]
			if _, dup := mFriend[lbl+".myco"]; dup {
				continue
			}
			ip := ipOf("friend.ip")
			st.FriendConfigs = append(st.FriendConfigs, config.FriendConfig{Name: lbl, IP: ip.String()})
			mFriend[lbl+".myco"] = ip
		}

		vn := vnet.New()
		node, err := vn.AddNode("dns", ids.Get(c.Pick("id", 20)), vnet.NodeOpts{Store: st})
		if err != nil {
			c.Fatalf("valid configuration rejected: %v", err)
		}
		// setMapping stores (or overwrites) a mapping, directly or through the
		// dashboard's confirmation handler; name == "" draws a name.
		setMapping := func(name string) string {
			lbl := strings.TrimSuffix(name, ".myco")
			if name == "" {
				lbl = c19Labels[c.Pick("mapping.label", len(c19Labels))]
				if c.Chance("mapping.idn", 1, 8) {
					lbl = c19Puny
				}
				if c.Chance("mapping.sub", 1, 4) {
					lbl = "www." + lbl
				}
				if c.Chance("mapping.deep", 1, 6) {
					lbl = c19Deep[c.Pick("mapping.deep.name", len(c19Deep))]
				}
				if c.Chance("mapping.long", 1, 10) {
					lbl = c19LongName
				}
			}
			name = lbl + ".myco" // the dashboard stores cleaned names
			ip := ipOf("mapping.ip")
			if c.Chance("mapping.via-dashboard", 1, 2) {
				// Through the dashboard's confirmation handler, with the name as a
				// browser puts it into the URL path: any case, unicode form for IDN.
				raw := name
				if lbl == c19Puny || strings.HasSuffix(lbl, "."+c19Puny) {
					raw = strings.ReplaceAll(raw, c19Puny, c19IDN)
				}
				if c.Bool("mapping.upper") {
					rs := []rune(raw)
					k := c.Pick("mapping.upper.at", len(rs))
					if rs[k] >= 'a' && rs[k] <= 'z' {
						rs[k] -= 'a' - 'A'
					}
					raw = string(rs)
				}
				dash := dashboard.VerifNew(&c19Inst{Node: node}, []byte("0123456789abcdef0123456789abcdef"))
				tok, err := dash.CreateRequestToken("create domain mapping", name, ip.String())
				if err != nil {
					c.Fatalf("request token: %v", err)
				}
				form := url.Values{"nonce": {tok.Nonce}, "token": {tok.Token}}
				req := httptest.NewRequest(http.MethodPost, "/open/"+url.PathEscape(raw)+"/"+ip.String()+"/", strings.NewReader(form.Encode()))
				req.Header.Set("Content-Type", "application/x-www-form-urlencoded")
				rec := httptest.NewRecorder()
				func() {
					defer func() { _ = recover() }() // the redirect page needs templates this bare dashboard lacks
					dash.VerifMux().ServeHTTP(rec, req)
				}()
				if rec.Code == http.StatusBadRequest {
					c.Fatalf("dashboard refused to map %q (cleaned %q) to %s: %s", raw, name, ip, rec.Body.String())
				}
				c.Class("mapping-created-through-dashboard")
			} else if err := node.Store.SaveMapping(name, ip); err != nil {
				c.Fatalf("save mapping: %v", err)
			}
			mMapping[name] = ip
			return name
		}
		nMappings := c.Int("mappings.n", 0, 6)
		for i := 0; i < nMappings; i++ {
			setMapping("")
		}
		srv, err := dns.New(node, c19Conn{}, node.Store)
		if err != nil {
			c.Fatalf("dns.New: %v", err)
		}
		alerts := mgr.NewAlertMgr(srv.Manager())

		reference := func(norm string) (netip.Addr, string) {
			switch {
			case norm == "router.myco" || norm == "open.myco":
				return config.DefaultAPIAddress, "internal"
			}
			if ip, ok := mResolve[norm]; ok {
				return ip, "resolve-config"
			}
			if norm == "wpad.myco" || norm == "myco.myco" {
				return netip.Addr{}, "forbidden"
			}
			if ip, ok := mFriend[norm]; ok {
				return ip, "friend"
			}
			if ip, ok := mMapping[norm]; ok {
				return ip, "mapping"
			}
			return netip.Addr{}, ""
		}

		// A burst: dozens of queries whose handling overlaps in time (each is held
		// where the handler asks for the configuration, then all go on). Every one
		// of them must get its reply.
		if c.Chance("burst", 1, 25) {
			nb := c.Int("burst.n", 20, 60)
			node.Gate.HoldAll("instance.Config")
			var wg sync.WaitGroup
			writers := make([]*c19Writer, nb)
			names := make([]string, nb)
			for i := 0; i < nb; i++ {
				lbl := c19Labels[c.Pick("burst.label", len(c19Labels))]
				names[i] = lbl + ".myco."
				writers[i] = &c19Writer{}
				req := new(mdns.Msg)
				req.SetQuestion(names[i], mdns.TypeAAAA)
				wg.Add(1)
				go func(w *c19Writer, req *mdns.Msg) {
					defer wg.Done()
					srv.ServeDNS(w, req)
				}(writers[i], req)
			}
			for waited, stable, last := 0, 0, -1; waited < 200 && node.Gate.Waiting() < nb && stable < 10; waited++ {
				time.Sleep(time.Millisecond)
				if now := node.Gate.Waiting(); now == last {
					stable++ // (names answered before the configuration is asked never wait)
				} else {
					stable, last = 0, now
				}
			}
			held := node.Gate.Waiting()
			node.Gate.Release()
			wg.Wait()
			for i, w := range writers {
				if len(w.msgs) != 1 {
					c.Fatalf("burst of %d overlapping queries (%d held at once): query %d for %q got %d replies, want exactly one", nb, held, i, names[i], len(w.msgs))
				}
				refIP, refSrc := reference(strings.TrimSuffix(names[i], "."))
				resolving := refSrc == "internal" || refSrc == "resolve-config" || refSrc == "friend" || refSrc == "mapping"
				if resolving != (w.msgs[0].Rcode == mdns.RcodeSuccess) {
					c.Fatalf("burst: query for %q got rcode %d, reference source %q (%s)", names[i], w.msgs[0].Rcode, refSrc, refIP)
				}
			}
			if up := alerts.Export(); len(up.Alerts) > 0 {
				c.Fatalf("burst of queries crashed the handler: %s", up.Alerts[0].Message)
			}
			c.Class("burst-of-overlapping-queries")
		}
		nq := c.Int("queries", 1, 40)
		asked := map[string][]string{} // normalised name -> spellings queried so far
		for qi := 0; qi < nq; qi++ {
			// The mapping source changes while the server runs (the user confirms
			// another router for a mapped name, deletes a mapping, opens a new
			// name); the next query often asks for the changed name, in a spelling
			// used before.
			changed := ""
			if c.Chance("mapping.change", 1, 6) {
				names := make([]string, 0, len(mMapping))
				for n := range mMapping {
					names = append(names, n)
				}
				sort.Strings(names)
				kind := c.Pick("mapping.change.kind", 3)
				switch {
				case kind == 0 && len(names) > 0:
					changed = setMapping(names[c.Pick("mapping.change.name", len(names))])
					c.Class("mapping-overwritten-while-serving")
				case kind == 1 && len(names) > 0:
					changed = names[c.Pick("mapping.change.name", len(names))]
					if err := node.Store.DeleteMapping(changed); err != nil {
						c.Fatalf("delete mapping: %v", err)
					}
					delete(mMapping, changed)
					c.Class("mapping-deleted-while-serving")
				default:
					changed = setMapping("")
					c.Class("mapping-added-while-serving")
				}
			}
			// Name.
			var qname string
			reuse := false
			if changed != "" && c.Chance("q.changed-name", 3, 4) {
				if sp := asked[changed]; len(sp) > 0 && c.Chance("q.changed-name.same-spelling", 2, 3) {
					qname, reuse = sp[c.Pick("q.changed-name.spelling", len(sp))], true
					c.Class("changed-name-asked-again-in-an-earlier-spelling")
				} else {
					qname = changed + "."
				}
			} else {
				switch c.Weighted("q.name", 10, 3, 2, 1, 1) {
				case 0:
					lbl := c19Labels[c.Pick("q.label", len(c19Labels))]
					if c.Chance("q.idn", 1, 8) {
						lbl = c19Puny
					}
					if c.Chance("q.sub", 1, 4) {
						lbl = "www." + lbl
					}
					if c.Chance("q.deep", 1, 6) {
						lbl = c19Deep[c.Pick("q.deep.name", len(c19Deep))]
						c.Class("query-below-a-myco-like-label")
					}
					if c.Chance("q.long", 1, 8) {
						lbl = c19LongName
						c.Class("query-for-a-name-of-170-characters")
					}
					qname = lbl + ".myco."
					if c.Chance("q.foreign-suffix", 1, 8) {
						// ... as a stub resolver with a search domain asks: the name the
						// sources may hold, followed by labels of another zone. That is
						// not a name under .myco.
						qname += core.OneOf(c, "q.foreign-suffix.zone", "example.com.", "lan.", "local.", "com.", "myco.example.")
						c.Class("query-for-a-myco-name-followed-by-a-foreign-zone")
					}
				case 1:
					qname = core.OneOf(c, "q.other", "example.com.", "myco.example.", "alice.mycox.", "alice.myco.com.", "router.", "alicemyco.", ".")
				case 2:
					qname = core.OneOf(c, "q.tld", "myco.", "MYCO.", ".myco.")
				case 3:
					qname = core.OneOf(c, "q.escape", `a\.b.myco.`, `alice\032x.myco.`, `\000.myco.`, strings.Repeat("a", 63)+".myco.")
				default:
					qname = strings.Repeat("a.", 100) + "myco."
				}
			}
			qcase := 0
			if !reuse {
				qcase = c.Pick("q.case", 3)
			}
			switch qcase {
			case 1:
				qname = strings.ToUpper(qname)
			case 2:
				if len(qname) > 2 {
					qname = strings.ToUpper(qname[:1]) + qname[1:]
				}
			}
			// Type and class.
			var qtype uint16
			tw := 3
			if changed != "" {
				tw = 0
			}
			switch c.Weighted("q.type", 10, tw, 20-tw*6) {
			case 2:
				qtype = core.OneOf(c, "q.type.resolving", mdns.TypeAAAA, mdns.TypeAAAA, mdns.TypeSVCB, mdns.TypeHTTPS, mdns.TypeANY, mdns.TypeA)
			case 0:
				qtype = core.OneOf(c, "q.type.addr", mdns.TypeA, mdns.TypeAAAA, mdns.TypeSVCB, mdns.TypeHTTPS, mdns.TypeANY, mdns.TypeTXT, mdns.TypeMX, mdns.TypeCNAME, mdns.TypeNS, mdns.TypePTR)
			default:
				qtype = uint16(c.Uniform("q.type.any", 0, 65535))
			}
			qclass := core.OneOf(c, "q.class", uint16(mdns.ClassINET), uint16(mdns.ClassINET), uint16(mdns.ClassANY), uint16(mdns.ClassCHAOS), uint16(mdns.ClassNONE), uint16(7))

			msg := new(mdns.Msg)
			msg.Id = uint16(c.Uniform("q.id", 0, 65535))
			msg.RecursionDesired = c.Bool("q.rd")
			msg.Question = []mdns.Question{{Name: qname, Qtype: qtype, Qclass: qclass}}
			shape := c.Weighted("q.shape", 20, 1, 1, 1)
			switch shape {
			case 1:
				msg.Question = nil
			case 2:
				msg.Question = append(msg.Question, mdns.Question{Name: "bob.myco.", Qtype: mdns.TypeAAAA, Qclass: mdns.ClassINET})
			case 3:
				msg.Response = true
			}
			wire, err := msg.Pack()
			if err != nil {
				c.Class("unpackable-query-skipped")
				continue
			}
			// What the server does before calling the handler.
			if len(wire) < 12 {
				c.Fatalf("packed message shorter than a header")
			}
			be := func(i int) uint16 { return uint16(wire[i])<<8 | uint16(wire[i+1]) }
			dh := mdns.Header{Id: be(0), Bits: be(2), Qdcount: be(4), Ancount: be(6), Nscount: be(8), Arcount: be(10)}
			action := mdns.DefaultMsgAcceptFunc(dh)
			if action != mdns.MsgAccept {
				c.Class("refused-by-dns-library")
				if shape == 0 {
					c.Fatalf("library refuses a plain single-question query (%s)", qname)
				}
				continue
			}
			if shape != 0 {
				c.Fatalf("library accepted a malformed query shape %d; the handler would see it", shape)
			}
			req := new(mdns.Msg)
			if err := req.Unpack(wire); err != nil {
				c.Class("refused-by-dns-library")
				continue
			}

			w := &c19Writer{}
			sentName := req.Question[0].Name // (the handler gets the message itself: judge by what was sent)
			srv.ServeDNS(w, req)
			desc := fmt.Sprintf("%q type=%d class=%d", qname, qtype, qclass)
			c.Note("query %s", desc)
			if up := alerts.Export(); len(up.Alerts) > 0 {
				c.Fatalf("query %s crashed the handler: %s", desc, up.Alerts[0].Message)
			}
			if len(w.msgs) != 1 {
				c.Fatalf("query %s produced %d replies, want exactly one", desc, len(w.msgs))
			}
			rep := w.msgs[0]

			lower := strings.ToLower(sentName)
			underMyco := strings.HasSuffix(lower, ".myco.")
			norm := strings.TrimSuffix(lower, ".")
			typeOK := qtype == mdns.TypeA || qtype == mdns.TypeAAAA || qtype == mdns.TypeSVCB || qtype == mdns.TypeHTTPS || qtype == mdns.TypeANY
			classOK := qclass == mdns.ClassINET || qclass == mdns.ClassANY
			refIP, refSrc := reference(norm)
			resolving := refSrc == "internal" || refSrc == "resolve-config" || refSrc == "friend" || refSrc == "mapping"

			// Lookup agrees with the reference (differential at the unit level).
			if underMyco {
				gotIP, gotSrc := srv.Lookup(norm)
				if string(gotSrc) != refSrc || (resolving && gotIP != refIP) {
					c.Fatalf("Lookup(%q) = (%s, %q), reference says (%s, %q)", norm, gotIP, gotSrc, refIP, refSrc)
				}
			}

			if underMyco {
				seen := false
				for _, sp := range asked[norm] {
					seen = seen || sp == sentName
				}
				if !seen {
					asked[norm] = append(asked[norm], sentName)
				}
			}
			var aaaa []netip.Addr
			for _, sec := range [][]mdns.RR{rep.Answer, rep.Extra, rep.Ns} {
				for _, rr := range sec {
					if sv, ok := rr.(*mdns.SVCB); ok {
						for _, kv := range sv.Value {
							if h, ok := kv.(*mdns.SVCBIPv6Hint); ok {
								for _, hip := range h.Hint {
									if ip, ok := netip.AddrFromSlice(hip); ok {
										aaaa = append(aaaa, ip)
									}
								}
							}
						}
					}
					if a, ok := rr.(*mdns.AAAA); ok {
						if ip, ok := netip.AddrFromSlice(a.AAAA); ok {
							aaaa = append(aaaa, ip)
						}
						if !strings.EqualFold(a.Hdr.Name, sentName) {
							c.Fatalf("query %s: AAAA record is for %q", desc, a.Hdr.Name)
						}
					}
				}
			}
			if underMyco && typeOK && classOK && resolving {
				if rep.Rcode != mdns.RcodeSuccess {
					c.Fatalf("query %s should resolve via %s to %s, got rcode %d", desc, refSrc, refIP, rep.Rcode)
				}
				if len(aaaa) == 0 {
					c.Fatalf("query %s: NOERROR reply without an AAAA record", desc)
				}
				for _, ip := range aaaa {
					if ip != refIP {
						c.Fatalf("query %s answered with %s, the %s source holds %s", desc, ip, refSrc, refIP)
					}
				}
			} else {
				if rep.Rcode != mdns.RcodeNameError {
					c.Fatalf("query %s must get a name error (under .myco=%v type ok=%v class ok=%v source=%q), got rcode %d", desc, underMyco, typeOK, classOK, refSrc, rep.Rcode)
				}
				if len(rep.Answer) != 0 || len(aaaa) != 0 {
					c.Fatalf("query %s: name error reply carries answer records", desc)
				}
			}
			if rep.Id != req.Id || !rep.Response {
				c.Fatalf("query %s: reply id/response flag wrong", desc)
			}

			// Non-trivial: name present in two or more sources.
			sources := 0
			var present []string
			if norm == "router.myco" || norm == "open.myco" {
				sources++
				present = append(present, "internal")
			}
			if _, ok := mResolve[norm]; ok {
				sources++
				present = append(present, "resolve")
			}
			if norm == "wpad.myco" || norm == "myco.myco" {
				sources++
				present = append(present, "forbidden")
			}
			if _, ok := mFriend[norm]; ok {
				sources++
				present = append(present, "friend")
			}
			if _, ok := mMapping[norm]; ok {
				sources++
				present = append(present, "mapping")
			}
			tclass := "other"
			if typeOK {
				tclass = fmt.Sprint(qtype)
			}
			key := fmt.Sprintf("%s|%s|type=%s|class=%d|under=%v", strings.Join(present, "+"), c19Variant(sentName), tclass, qclass, underMyco)
			c.Eval(key, sources >= 2, func() any {
				return map[string]any{"query": desc, "sources_holding_name": present, "answered_from": refSrc, "rcode": rep.Rcode}
			})
			if sources >= 2 {
				c.Class("name-in-" + strings.Join(present, "+"))
			}
		}
	})
}

func c19Variant(name string) string {
	switch {
	case name == strings.ToLower(name):
		return "lower"
	case name == strings.ToUpper(name):
		return "upper"
	default:
		return "mixed"
	}
}
