package props

// C12, second and third harness.
//
// TestC12Switch drives the forward block of a generated path through the real
// switches of a line of real routers whose links carry exactly the path's
// labels: every hop must be the next router of the path, the destination's
// router gets the frame, the block it holds there reverses to exactly the
// path's return block, and a frame sent back with that block retraces the
// hops and arrives with a block that reverses to the original forward block.
//
// TestC12Table adds generated paths to a real routing table in generated order
// (so that every insertion branch is taken) without pre-built blocks and then
// requires of every stored route what the statement requires of a path: its
// forward block yields its forward labels in order, its return block the
// return labels.

import (
	"bytes"
	"fmt"
	"net/netip"
	"slices"
	"testing"
	"time"

	"github.com/mycoria/mycoria/frame"
	"github.com/mycoria/mycoria/m"

	"verif/core"
	"verif/ids"
	"verif/vnet"
)

// c12Walk sends a frame with the given switch block from nodes[path[0]] along
// the links and returns the block the destination's router sees.
func c12Walk(c *core.Case, vn *vnet.Net, nodes []*vnet.Node, path []int, block []byte, what string) ([]byte, frame.Frame) {
	src, dst := nodes[path[0]], nodes[path[len(path)-1]]
	blk := slices.Clone(block)
	first, err := m.NextRotateSwitchBlock(blk, 0)
	if err != nil {
		c.Fatalf("%s: rotating the block at the origin: %v", what, err)
	}
	f, err := src.Builder.NewFrameV1(src.IP(), dst.IP(), frame.RouterPing, blk, []byte("c12 label-switched frame"), nil)
	if err != nil {
		c.Fatalf("%s: frame: %v", what, err)
	}
	if len(path) > 30 {
		f.SetTTL(uint8(min(len(path)+5, 255))) // more hops than the default TTL allows
	}
	if err := src.Sw.ForwardByLabel(f, first); err != nil {
		c.Fatalf("%s: origin cannot forward by the first label %d: %v", what, first, err)
	}
	return c12Follow(c, vn, nodes, path, what)
}

// c12ReplyWalk answers on the received frame itself, the way a handler does:
// the block the frame holds is reversed in place and handed, as the view it
// is, to Reply together with the frame's own message; then the reply travels.
func c12ReplyWalk(c *core.Case, vn *vnet.Net, nodes []*vnet.Node, path []int, fr frame.Frame, wantBlock []byte, what string) []byte {
	src := nodes[path[0]]
	blk := fr.SwitchBlock()
	m.TransformToReturnBlock(blk)
	if !bytes.Equal(blk, wantBlock) {
		c.Fatalf("%s: the block of the received frame reverses to %x, the path's return block is %x", what, blk, wantBlock)
	}
	first, err := m.NextRotateSwitchBlock(blk, 0)
	if err != nil {
		c.Fatalf("%s: rotating the block at the origin: %v", what, err)
	}
	rotated := slices.Clone(blk)
	msg := slices.Clone(fr.MessageData())
	if err := fr.Reply(fr.SwitchBlock(), fr.MessageData(), nil); err != nil {
		c.Fatalf("%s: Reply on the received frame: %v", what, err)
	}
	if !bytes.Equal(fr.SwitchBlock(), rotated) || !bytes.Equal(fr.MessageData(), msg) {
		c.Fatalf("%s: the reply built on the received frame from its own block and message carries block %x and message %q, want %x and %q", what, fr.SwitchBlock(), fr.MessageData(), rotated, msg)
	}
	if len(path) > 30 {
		fr.SetTTL(uint8(min(len(path)+5, 255)))
	}
	if err := src.Sw.ForwardByLabel(fr, first); err != nil {
		c.Fatalf("%s: origin cannot forward by the first label %d: %v", what, first, err)
	}
	got, last := c12Follow(c, vn, nodes, path, what)
	last.ReturnToPool()
	return got
}

// c12Follow delivers the one frame in flight hop by hop along the path and
// returns the block the destination's router sees, and that frame.
func c12Follow(c *core.Case, vn *vnet.Net, nodes []*vnet.Node, path []int, what string) ([]byte, frame.Frame) {
	dst := nodes[path[len(path)-1]]
	for step := 1; ; step++ {
		if len(vn.Queue) != 1 {
			c.Fatalf("%s: %d frames in flight after hop %d (want exactly one)", what, len(vn.Queue), step-1)
		}
		fl := vn.Drop(0)
		if step >= len(path) || fl.To != nodes[path[step]] {
			c.Fatalf("%s: hop %d went to %s, the path says n%d", what, step, fl.To.Name, path[min(step, len(path)-1)])
		}
		esc, err := vn.InjectSwitch(fl.To, fl.Link, fl.Data)
		if err != nil {
			c.Fatalf("%s: switch of %s failed: %v", what, fl.To.Name, err)
		}
		if len(esc) > 0 {
			if fl.To != dst {
				c.Fatalf("%s: frame was handed to the router of %s, not to the destination", what, fl.To.Name)
			}
			if len(vn.Queue) != 0 {
				c.Fatalf("%s: frame both delivered and forwarded", what)
			}
			got := slices.Clone(esc[0].SwitchBlock())
			for _, e := range esc[1:] {
				e.ReturnToPool()
			}
			return got, esc[0]
		}
		if fl.To == dst {
			c.Fatalf("%s: the destination's switch did not hand the frame to its router", what)
		}
	}
}

func TestC12Switch(t *testing.T) {
	pool := ids.Group("eu")
	core.Run(t, core.Opts{ID: "C12", Quick: 400, Thorough: 20000}, func(c *core.Case) {
		// Short paths over a line of routers, or (one case in four) long paths of
		// up to 101 hops: from a source router into a ring of 3..5 routers, round
		// and round it, and out to a tail router that is linked to every ring
		// router (a router ignores frames that carry its own address as source,
		// so the two end points are visited once). Long paths are shortened until
		// their labels fit, so that block sizes at and just below the 255-byte
		// limit are frequent.
		h := c.Int("hops", 2, 6)
		long := c.Chance("long", 1, 4)
		k := 0
		nNodes := h
		if long {
			k = c.Int("ring", 3, 5)
			h = c.Uniform("long.hops", 7, 101)
			nNodes = k + 2
		}
		vn := vnet.New()
		var nodes []*vnet.Node
		for i := 0; i < nNodes; i++ {
			n, err := vn.AddNode(fmt.Sprintf("n%d", i), pool[i], vnet.NodeOpts{})
			if err != nil {
				c.Fatalf("node: %v", err)
			}
			nodes = append(nodes, n)
		}
		// lab[{a,b}] is the label router a gave its link to b.
		lab := map[[2]int]m.SwitchLabel{}
		usedAt := map[int]map[m.SwitchLabel]bool{}
		big := long && c.Bool("long.big-labels") // only three-byte labels: the limit is reached at 86 hops
		connect := func(a, b int) {
			for _, e := range [][2]int{{a, b}, {b, a}} {
				l := c12Label(c, "label")
				if big {
					l = m.SwitchLabel(c.Uniform("label.big", 16384, 65535))
				}
				if usedAt[e[0]] == nil {
					usedAt[e[0]] = map[m.SwitchLabel]bool{}
				}
				for l == 0 || usedAt[e[0]][l] {
					l = l%65535 + 1
				}
				usedAt[e[0]][l] = true
				lab[e] = l
			}
			if _, _, err := vn.Connect(nodes[a], nodes[b], vnet.LinkOpts{LabelA: lab[[2]int{a, b}], LabelB: lab[[2]int{b, a}], LatA: 1, LatB: 1}); err != nil {
				c.Fatalf("connect: %v", err)
			}
		}
		if !long {
			for i := 0; i < h-1; i++ {
				connect(i, i+1)
			}
		} else {
			connect(0, 1) // source - first ring router
			for j := 1; j <= k; j++ {
				connect(j, j%k+1) // ring
				connect(j, k+1)   // every ring router - tail
			}
		}
		// One short path in three (on lines of four or more routers) turns round
		// twice on its way.
		zig, turn := false, 0
		if !long && nNodes >= 4 && c.Chance("zigzag", 1, 3) {
			zig, turn = true, c.Int("zigzag.turn", 2, nNodes-2)
			c.Class("switch/path-that-turns-round-at-a-router")
		}
		var sp *m.SwitchPath
		var hops []m.SwitchHop
		var path, back []int
		var fwd, ret []m.SwitchLabel
		for ; ; h-- {
			path = nil
			if zig {
				// 0 .. turn, one step back, forward again to the end: the routers
				// in the middle see the frame twice, and at the turning points it
				// leaves over the link it came in on.
				for i := 0; i <= turn; i++ {
					path = append(path, i)
				}
				path = append(path, turn-1)
				for i := turn; i < nNodes; i++ {
					path = append(path, i)
				}
				h = len(path)
			} else if !long {
				for i := 0; i < h; i++ {
					path = append(path, i)
				}
			} else {
				path = append(path, 0)
				for v := 0; v < h-2; v++ {
					path = append(path, 1+v%k)
				}
				path = append(path, k+1)
			}
			hops, back = nil, nil
			fwd, ret = make([]m.SwitchLabel, h), make([]m.SwitchLabel, h)
			for i, at := range path {
				if i < h-1 {
					fwd[i] = lab[[2]int{at, path[i+1]}]
				}
				if i > 0 {
					ret[i] = lab[[2]int{at, path[i-1]}]
				}
				hops = append(hops, m.SwitchHop{Router: nodes[at].IP(), ForwardLabel: fwd[i], ReturnLabel: ret[i]})
				back = append([]int{at}, back...)
			}
			sp = &m.SwitchPath{Hops: hops}
			err := sp.BuildBlocks()
			if err == nil {
				break
			}
			if !long || h <= 7 {
				c.Fatalf("BuildBlocks refused a %d-hop path: %v", h, err)
			}
			c.Class("switch/long-path-refused-and-shortened")
		}
		if long {
			c.Class(fmt.Sprintf("switch/long-path-block-size-from-%d", min(len(sp.ForwardBlock)/64*64, 192)))
			if len(sp.ForwardBlock) == 255 {
				c.Class("switch/block-of-exactly-255-bytes")
			}
		}
		desc := c12Describe(hops)
		c.Note("path %s block size %d", desc, len(sp.ForwardBlock))
		at, arrived := c12Walk(c, vn, nodes, path, sp.ForwardBlock, "forward "+desc)
		m.TransformToReturnBlock(at)
		if !bytes.Equal(at, sp.ReturnBlock) {
			c.Fatalf("path %s: the block at the destination reverses to %x, the path's return block is %x", desc, at, sp.ReturnBlock)
		}
		var home []byte
		if c.Bool("reply-on-the-received-frame") {
			home = c12ReplyWalk(c, vn, nodes, back, arrived, sp.ReturnBlock, "reply "+desc)
			c.Class("switch/reply-built-on-the-received-frame")
		} else {
			arrived.ReturnToPool()
			var last frame.Frame
			home, last = c12Walk(c, vn, nodes, back, at, "return "+desc)
			last.ReturnToPool()
		}
		m.TransformToReturnBlock(home)
		if !bytes.Equal(home, sp.ForwardBlock) {
			c.Fatalf("path %s: after the round trip the block reverses to %x, the forward block was %x", desc, home, sp.ForwardBlock)
		}
		mixed := false
		for i := 1; i < h; i++ {
			if i < h-1 && fwd[i].EncodedSize() != ret[i].EncodedSize() {
				mixed = true
			}
		}
		if fwd[0].EncodedSize() != ret[h-1].EncodedSize() {
			mixed = true
		}
		c.Eval("switch|"+desc, mixed || len(sp.ForwardBlock) == 1, func() any {
			return map[string]any{"harness": "real switches", "path": desc, "block_size": len(sp.ForwardBlock)}
		})
		if len(sp.ForwardBlock) == 1 {
			c.Class("switch/one-byte-block")
		}
	})
}

func TestC12Table(t *testing.T) {
	pool := ids.Routable()
	core.Run(t, core.Opts{ID: "C12", Quick: 1500, Thorough: 60000}, func(c *core.Case) {
		me := pool[c.Pick("me", len(pool))]
		tbl := m.NewRoutingTable(m.RoutingTableConfig{RouterIP: me.Addr.IP})
		universe := []netip.Addr{}
		for i := 0; i < 6; i++ {
			id := pool[(me.Index+1+i)%len(pool)]
			if id != me {
				universe = append(universe, id.Addr.IP)
			}
		}
		n := c.Int("routes", 1, 14)
		var added []string
		for k := 0; k < n; k++ {
			dst := universe[c.Pick("dst", 2)] // few destinations, so that sections fill up
			relays := c.Int("relays", 0, 3)
			hops := []m.SwitchHop{{Router: me.Addr.IP, ForwardLabel: c12Label(c, "f0"), Delay: uint16(c.Int("d0", 1, 50))}}
			for r := 0; r < relays; r++ {
				ip := universe[2+c.Pick("relay", len(universe)-2)]
				dup := false
				for _, hp := range hops {
					if hp.Router == ip {
						dup = true
					}
				}
				if dup {
					continue
				}
				hops = append(hops, m.SwitchHop{Router: ip, ForwardLabel: c12Label(c, "f"), ReturnLabel: c12Label(c, "r"), Delay: uint16(c.Int("d", 1, 50))})
			}
			hops = append(hops, m.SwitchHop{Router: dst, ReturnLabel: c12Label(c, "rl")})
			e := m.RoutingTableEntry{DstIP: dst, NextHop: hops[1].Router, Source: m.RouteSourceGossip, Expires: time.Now().Add(time.Hour)}
			e.Path.Hops = hops
			ok, err := tbl.AddRoute(e)
			added = append(added, fmt.Sprintf("%s ok=%v err=%v", c12Describe(hops), ok, err))
		}
		for _, e := range tbl.VerifEntries() {
			hops := e.Path.Hops
			if len(hops) < 2 {
				continue
			}
			var fl, rl []m.SwitchLabel
			for i := 0; i < len(hops)-1; i++ {
				fl = append(fl, hops[i].ForwardLabel)
			}
			for i := len(hops) - 1; i > 0; i-- {
				rl = append(rl, hops[i].ReturnLabel)
			}
			for name, pair := range map[string]struct {
				block  []byte
				labels []m.SwitchLabel
			}{"forward": {e.Path.ForwardBlock, fl}, "return": {e.Path.ReturnBlock, rl}} {
				want, ok := c12Encode(pair.labels, len(pair.block))
				if !ok || !bytes.Equal(pair.block, want) {
					c.Fatalf("stored route %s holds %s block %x, its labels are %v (routes added: %v)", c12Describe(hops), name, pair.block, pair.labels, added)
				}
			}
		}
		c.Eval(fmt.Sprint(added), n >= 4, func() any { return map[string]any{"harness": "routing table", "routes_added": added} })
	})
}
