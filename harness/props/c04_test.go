package props

// C04 — Peering handshake: key-possession proof, universe admission, key agreement.
//
// Generator: two identities with generated configurations (universe, universe
// secret, lite, MTU), who dials, and a fault script over the six handshake
// messages carried by a message-scheduled relay between two real link setups:
// none, bit flip at (message, byte, bit), truncation, drop, duplicate, reorder,
// replacement by the message at the same position of an earlier completed
// connection of the same identities, reflection to the sender, and a scripted
// attacker that claims the peer's address without holding its key.
// Oracle: per receiving router - whoever received a message that is not the
// genuine next one (modulo TTL/flow bits) must fail its setup and register
// nothing; compatible honest setups complete with the right peers and working
// link keys; incompatible configurations are refused by the entitled side;
// never a panic.

import (
	"encoding/binary"
	"bytes"
	"fmt"
	"testing"
	"time"

	"github.com/fxamacker/cbor/v2"

	"github.com/mycoria/mycoria/config"
	"github.com/mycoria/mycoria/frame"
	"github.com/mycoria/mycoria/m"
	"github.com/mycoria/mycoria/peering"

	"verif/core"
	"verif/ids"
	"verif/vnet"
	"verif/wire"
)

var c04Opts = core.Opts{ID: "C04", Quick: 5000, Thorough: 200000}

type c04Cfg struct {
	universe, secret string
	lite             bool
	mtu              int
}

func c04GenCfg(c *core.Case, label string) c04Cfg {
	return c04Cfg{
		universe: core.OneOf(c, label+".universe", "", "", "alpha", "alpha", "beta"),
		secret:   core.OneOf(c, label+".secret", "", "", "s1", "s1", "s2"),
		lite:     c.Chance(label+".lite", 1, 5),
		mtu:      core.OneOf(c, label+".mtu", 0, 1280, 1500, 9000),
	}
}

func (cf c04Cfg) store() config.Store {
	st := config.Store{}
	st.Router.Universe, st.Router.UniverseSecret, st.Router.Lite = cf.universe, cf.secret, cf.lite
	st.System.TunMTU = cf.mtu
	return st
}

// accepts: does a router with config me accept a peer with config other?
func c04Accepts(me, other c04Cfg) bool {
	if me.universe != other.universe {
		return false
	}
	if me.secret == "" {
		return true
	}
	return me.universe != "" && other.secret == me.secret
}

type c04Fault struct {
	kind string // none flip truncate drop duplicate reorder replay reflect
	dir  int    // 0: A->B, 1: B->A
	idx  int    // 0 request, 1 response, 2 ack
	pos  int
	bit  int
}

func overtakenAny(r *c04Run) bool { return r.badRecv[0] || r.badRecv[1] }

type c04Run struct {
	conn      *wire.Conn
	msgs      [2][][]byte // genuine messages seen per direction
	badRecv   [2]bool     // router (0=A,1=B) received a non-genuine message before finishing
	inconcl   bool
	faultDone bool
	authentic bool // fault left the message authentic (TTL/flow flip)
}

// c04Handshake runs one relayed handshake with an optional fault.
func c04Handshake(c *core.Case, a, b *vnet.Node, f c04Fault, prev *c04Run, lockstep bool) *c04Run {
	r := &c04Run{conn: wire.Dial(a, b), authentic: true}
	ends := [2]*wire.End{r.conn.A, r.conn.B}
	sent := [2]int{}
	held := [2][]byte{} // for reorder: message held back
	overtaken := [2]bool{}
	deliver := func(to int, data []byte, genuine bool) {
		e := ends[to]
		if !genuine && !e.Done() {
			r.badRecv[to] = true
		}
		prevParked := e.Parked()
		if err := e.Write(data); err != nil {
			return
		}
		if err := e.WaitReaction(prevParked); err != nil {
			r.inconcl = true
		}
	}
	// Both routers start by writing their request.
	for i := 0; i < 2; i++ {
		if err := ends[i].WaitParked(1); err != nil {
			r.inconcl = true
		}
	}
	for step := 0; step < 40; step++ {
		// Which directions have a message to forward?
		var ready []int
		for d := 0; d < 2; d++ {
			if ends[d].Parked() > 0 || held[d] != nil {
				ready = append(ready, d)
			}
		}
		if len(ready) == 0 {
			break
		}
		d := ready[0]
		if len(ready) > 1 {
			if lockstep {
				if sent[1] < sent[0] {
					d = 1
				}
			} else {
				d = ready[c.Pick("sched", len(ready))]
			}
		}
		from, to := ends[d], 1-d
		var msg []byte
		if ends[d].Parked() > 0 {
			msg = from.Take(0)
			r.msgs[d] = append(r.msgs[d], msg)
		} else {
			// Nothing newer from this direction overtook it: a pure delay.
			msg, held[d] = held[d], nil
			deliver(to, msg, !overtaken[d])
			continue
		}
		if held[d] != nil {
			overtaken[d] = true
		}
		idx := sent[d]
		sent[d]++
		if f.kind != "none" && f.dir == d && f.idx == idx && !r.faultDone {
			r.faultDone = true
			switch f.kind {
			case "flip":
				mut := append([]byte(nil), msg...)
				pos := f.pos % len(mut)
				mut[pos] ^= 1 << f.bit
				frameOff := pos - 2
				if frameOff == 1 || frameOff == 2 {
					if frameOff == 1 && mut[pos] == 0 {
						mut[pos] = 1 // TTL 0 would still be authentic; keep it simple
					}
					deliver(to, mut, true) // TTL / flow flags: still authentic
					continue
				}
				r.authentic = false
				if pos < 2 {
					// Length prefix: framing is broken from here on; the attacker cuts the line.
					ends[to].Write(mut) //nolint:errcheck
					r.badRecv[to] = true
					ends[to].Close()
					_ = ends[to].WaitDone()
					continue
				}
				deliver(to, mut, false)
			case "truncate":
				r.authentic = false
				cut := 2 + f.pos%(len(msg)-2)
				_ = ends[to].Write(msg[:cut])
				r.badRecv[to] = true
				ends[to].Close()
				_ = ends[to].WaitDone()
			case "shorten":
				// The message loses bytes at its end and its length prefix says so:
				// framing stays intact, the message is altered. Where the message
				// ends in zero bytes, the cut may take exactly those.
				r.authentic = false
				cut := 1 + f.pos%3
				zeros := 0
				for zeros < len(msg)-3 && msg[len(msg)-1-zeros] == 0 {
					zeros++
				}
				if zeros > 0 && f.bit < 6 {
					cut = zeros
					c.Class("fault-shorten/exactly-the-zero-bytes-at-the-end")
				}
				if cut > len(msg)-3 {
					cut = 1
				}
				mut := append([]byte(nil), msg[:len(msg)-cut]...)
				binary.BigEndian.PutUint16(mut[:2], uint16(len(mut))) // the prefix counts itself
				deliver(to, mut, false)
			case "drop":
				r.authentic = false
			case "duplicate":
				r.authentic = false
				deliver(to, msg, true)
				deliver(to, msg, false)
			case "reorder":
				held[d] = msg // delivered after the next one of this direction (if there is one)
				// the receiver now gets nothing until the sender writes again, which it
				// will not: so deliver the held message after the peer's next message.
			case "replay":
				r.authentic = false
				if prev != nil && len(prev.msgs[d]) > idx {
					deliver(to, prev.msgs[d][idx], false)
				} else {
					deliver(to, msg, true)
					r.authentic = true
				}
			case "reflect":
				r.authentic = false
				deliver(d, msg, false) // back to its sender
			case "keys-lost":
				// The receiving router drops the end-to-end keys it holds for the
				// peer just before this message arrives (what an authentic "no
				// encryption keys" error ping of that peer makes it do); the
				// handshake messages themselves stay genuine.
				_ = [2]*vnet.Node{a, b}[to].St.SetEncryptionSession([2]*vnet.Node{a, b}[d].IP(), nil)
				deliver(to, msg, true)
			}
			continue
		}
		deliver(to, msg, !overtaken[d])
	}
	// Whatever is still blocked gets an EOF.
	for i := 0; i < 2; i++ {
		if !ends[i].Done() {
			ends[i].Close()
		}
	}
	for i := 0; i < 2; i++ {
		if err := ends[i].WaitDone(); err != nil {
			r.inconcl = true
		}
	}
	return r
}

func c04NoLink(c *core.Case, n *vnet.Node, peer *vnet.Node, why string) {
	if l := n.Peer.GetLink(peer.IP()); l != nil {
		c.Fatalf("%s: %s holds a registered link to %s", why, n.Name, peer.Name)
	}
	for _, e := range n.Rtr.Table().VerifEntries() {
		if e.DstIP == peer.IP() || e.NextHop == peer.IP() {
			c.Fatalf("%s: %s has a route to/via %s", why, n.Name, peer.Name)
		}
	}
	if len(n.Peer.GetLinks()) != 0 {
		c.Fatalf("%s: %s has %d registered links", why, n.Name, len(n.Peer.GetLinks()))
	}
}

// c04Traffic sends a frame over each link end and expects it byte-identical at the other.
func c04Traffic(c *core.Case, r *c04Run, a, b *vnet.Node) {
	ends := [2]*wire.End{r.conn.A, r.conn.B}
	nodes := [2]*vnet.Node{a, b}
	defer c04BackToBack(c, ends, nodes)
	for d := 0; d < 2; d++ {
		from, to := nodes[d], nodes[1-d]
		payload := c.Bytes("traffic.payload", c.Int("traffic.len", 1, 1200))
		f, err := from.Builder.NewFrameV1(from.IP(), to.IP(), frame.NetworkTraffic, nil, payload, nil)
		if err != nil {
			c.Fatalf("frame: %v", err)
		}
		want, _ := f.FrameDataWithMargins(0, 0)
		want = append([]byte(nil), want...)
		if err := ends[d].Link.Send(f); err != nil {
			c.Fatalf("send: %v", err)
		}
		if err := ends[d].WaitParked(1); err != nil {
			c.Fatalf("frame handed to the link of %s never reached the wire: %v", from.Name, err)
		}
		lf := ends[d].Take(0)
		if bytes.Contains(lf, payload) && len(payload) >= 8 {
			c.Fatalf("link frame carries the payload in clear")
		}
		if err := ends[1-d].Write(lf); err != nil {
			c.Fatalf("write: %v", err)
		}
		select {
		case g := <-to.SwitchIn:
			got, _ := g.FrameDataWithMargins(0, 0)
			if !bytes.Equal(got, want) {
				c.Fatalf("frame sent by %s arrived altered at %s", from.Name, to.Name)
			}
			if g.RecvLink() == nil || g.RecvLink().Peer() != from.IP() {
				c.Fatalf("frame arrived at %s without the right receive link", to.Name)
			}
			g.ReturnToPool()
		case <-time.After(wire.Budget):
			c.Fatalf("both link setups completed, but a frame sealed by %s's link end does not arrive at %s (link keys disagree?)", from.Name, to.Name)
		}
	}
}

func TestC04(t *testing.T) {
	pool := ids.Routable()
	core.Run(t, c04Opts, func(c *core.Case) {
		ia := c.Pick("idA", len(pool))
		ib := c.Pick("idB", len(pool)-1)
		if ib >= ia {
			ib++
		}
		ca, cb := c04GenCfg(c, "A"), c04GenCfg(c, "B")
		if c.Chance("compatible", 3, 5) {
			cb.universe, cb.secret = ca.universe, ca.secret
			if ca.universe == "" {
				cb.secret, ca.secret = "", ""
			}
		}
		vn := vnet.New()
		a, err := vn.AddNode("A", pool[ia], vnet.NodeOpts{Store: ca.store()})
		if err != nil {
			c.Fatalf("node: %v", err)
		}
		b, err := vn.AddNode("B", pool[ib], vnet.NodeOpts{Store: cb.store()})
		if err != nil {
			c.Fatalf("node: %v", err)
		}
		aOK, bOK := c04Accepts(ca, cb), c04Accepts(cb, ca)
		compatible := aOK && bOK

		f := c04Fault{kind: "none"}
		if compatible {
			f.kind = core.OneOf(c, "fault", "none", "flip", "flip", "flip", "truncate", "drop", "duplicate", "reorder", "replay", "reflect", "keys-lost", "shorten", "shorten")
		}
		f.dir, f.idx = c.Pick("fault.dir", 2), c.Pick("fault.idx", 3)
		f.pos, f.bit = c.Uniform("fault.pos", 0, 399), c.Uniform("fault.bit", 0, 7)
		if c.Chance("fault.header", 1, 3) {
			f.pos = c.Uniform("fault.hpos", 0, 60)
		}
		lockstep := c.Chance("lockstep", 2, 3)
		c.Note("A{%+v} B{%+v} fault=%+v lockstep=%v", ca, cb, f, lockstep)

		var prev *c04Run
		if f.kind == "replay" {
			prev = c04Handshake(c, a, b, c04Fault{kind: "none"}, nil, true)
			if prev.conn.A.Err != nil || prev.conn.B.Err != nil {
				c.Fatalf("honest handshake of compatible routers failed: %v / %v", prev.conn.A.Err, prev.conn.B.Err)
			}
			prev.conn.Teardown()
			time.Sleep(3 * time.Millisecond) // signing timestamps have ms resolution
		}
		r := c04Handshake(c, a, b, f, prev, lockstep)
		defer r.conn.Teardown()
		ea, eb := r.conn.A, r.conn.B
		if ea.Panicked() || eb.Panicked() {
			c.Fatalf("link setup panicked: A=%v B=%v", ea.Err, eb.Err)
		}
		if r.inconcl {
			c.Class("inconclusive-time-budget")
			c.Eval("inconclusive", false, nil)
			return
		}
		nodes := [2]*vnet.Node{a, b}
		ends := [2]*wire.End{ea, eb}
		switch {
		case !compatible:
			// The side entitled to refuse must refuse and register nothing.
			if !aOK {
				if ea.Err == nil {
					c.Fatalf("A accepted a peer it must refuse (A %+v, B %+v)", ca, cb)
				}
				c04NoLink(c, a, b, "after refusing the peer")
			}
			if !bOK {
				if eb.Err == nil {
					c.Fatalf("B accepted a peer it must refuse (A %+v, B %+v)", ca, cb)
				}
				c04NoLink(c, b, a, "after refusing the peer")
			}
			c.Class("incompatible-refused")
		case f.kind == "keys-lost":
			// A setup that cannot derive its link keys any more aborts and registers
			// nothing; one that completes at both ends has working, encrypted links.
			for i := 0; i < 2; i++ {
				if ends[i].Err != nil {
					c04NoLink(c, nodes[i], nodes[1-i], "after a setup that failed when the keys for the peer were lost")
				}
			}
			if ea.Err == nil && eb.Err == nil {
				c04Traffic(c, r, a, b)
				c.Class("keys-lost/completed")
			} else {
				c.Class("keys-lost/aborted")
			}
		case f.kind == "none" || (r.authentic && !overtakenAny(r)):
			if ea.Err != nil || eb.Err != nil {
				c.Fatalf("honest handshake of compatible routers failed (fault %s left all messages authentic): A=%v B=%v", f.kind, ea.Err, eb.Err)
			}
			if ea.Link.Peer() != b.IP() || eb.Link.Peer() != a.IP() {
				c.Fatalf("links report peers %s / %s", ea.Link.Peer(), eb.Link.Peer())
			}
			if a.Peer.GetLink(b.IP()) != ea.Link || b.Peer.GetLink(a.IP()) != eb.Link {
				c.Fatalf("completed links are not the registered ones")
			}
			if ea.Link.Lite() != cb.lite || eb.Link.Lite() != ca.lite {
				c.Fatalf("lite flags not reported correctly")
			}
			c04Traffic(c, r, a, b)
			c.Class("completed")
		default:
			for i := 0; i < 2; i++ {
				if r.badRecv[i] {
					if ends[i].Err == nil {
						c.Fatalf("%s received a %s message (dir %d, message %d) and still completed the handshake", nodes[i].Name, f.kind, f.dir, f.idx)
					}
					c04NoLink(c, nodes[i], nodes[1-i], fmt.Sprintf("after a %s fault", f.kind))
				} else if ends[i].Err == nil {
					// The other side may have completed if the fault hit the last message of its direction.
					c.Class("other-side-completed")
				}
			}
			c.Class("fault-" + f.kind)
		}
		region := "payload"
		if f.kind == "flip" {
			switch fo := f.pos - 2; {
			case fo < 0:
				region = "length-prefix"
			case fo < 48:
				region = "header"
			}
		}
		nt := compatible && f.kind != "none" && !r.authentic && (f.idx >= 1 || f.kind == "replay" || f.kind == "reflect")
		c.Eval(fmt.Sprintf("%s|d%d|i%d|%s|dial|u=%v|s=%v", f.kind, f.dir, f.idx, region, ca.universe != "", ca.secret != ""), nt, func() any {
			return map[string]any{"fault": f.kind, "direction": f.dir, "message": f.idx, "region": region, "A": fmt.Sprintf("%+v", ca), "B": fmt.Sprintf("%+v", cb), "A_err": fmt.Sprint(ea.Err), "B_err": fmt.Sprint(eb.Err)}
		})
	})
}

// Scripted attacker: claims the peer's address without holding its key.
type c04Request struct {
	RouterVersion string          `cbor:"v,omitempty"`
	Universe      string          `cbor:"u,omitempty"`
	LiteMode      bool            `cbor:"lm,omitempty"`
	Address       m.PublicAddress `cbor:"a,omitempty"`
	Challenge     []byte          `cbor:"c,omitempty"`
	LinkVersion   int             `cbor:"lv,omitempty"`
	TunMTU        int             `cbor:"tmtu,omitempty"`
}

func TestC04Impersonation(t *testing.T) {
	pool := ids.Routable()
	core.Run(t, core.Opts{ID: "C04", Quick: 2000, Thorough: 60000}, func(c *core.Case) {
		ia := c.Pick("idA", len(pool))
		ip := (ia + 1 + c.Pick("idP", len(pool)-2)) % len(pool)
		ix := (ia + 1 + c.Pick("idX", len(pool)-2)) % len(pool)
		if ix == ip {
			ix = (ip + 1) % len(pool)
			if ix == ia {
				ix = (ix + 1) % len(pool)
			}
		}
		P, X := pool[ip], pool[ix]
		vn := vnet.New()
		a, err := vn.AddNode("A", pool[ia], vnet.NodeOpts{})
		if err != nil {
			c.Fatalf("node: %v", err)
		}
		variant := c.Pick("variant", 5)
		claimed := P.Addr.PublicAddress
		src := P.Addr.IP
		signKey := X.Addr.PrivateKey
		name := ""
		switch variant {
		case 0:
			name = "peer's address and key, signed by the attacker"
		case 1:
			name = "peer's address with the attacker's key"
			claimed.PublicKey = X.Addr.PublicKey
		case 2:
			name = "attacker's identity embedded, frame source is the peer"
			claimed = X.Addr.PublicAddress
		case 3:
			name = "peer's address, attacker's key, easing searched"
			claimed.PublicKey = X.Addr.PublicKey
			claimed.Easing = uint64(c.Int("easing", 1, 1000))
		default:
			name = "attacker's own identity (control: a link under X's address is fine)"
			claimed, src = X.Addr.PublicAddress, X.Addr.IP
		}
		req := c04Request{RouterVersion: "v0", Address: claimed, Challenge: c.Bytes("challenge", 32), LinkVersion: 1, TunMTU: 1500}
		body, _ := cbor.Marshal(&req)
		fb := frame.NewFrameBuilder()
		fb.SetFrameMargins(peering.FrameOffset, peering.FrameOverhead)
		fr, err := fb.NewFrameV1(src, m.RouterAddress, frame.RouterPing, nil, body, nil)
		if err != nil {
			c.Fatalf("frame: %v", err)
		}
		fr.SetTTL(0)
		fr.SetSequenceTime(time.Now().Add(-time.Millisecond))
		_ = fr.SignRaw(signKey)
		fr.SetTTL(1)
		data, _ := fr.FrameDataWithMargins(2, 0)
		data = append([]byte(nil), data...)
		data[0], data[1] = byte(len(data)>>8), byte(len(data))
		fr.ReturnToPool()

		e := wire.DialOne(a, c.Bool("a.dials"))
		defer func() {
			e.Close()
			_ = e.WaitDone()
			if e.Link != nil {
				e.Link.Close(nil)
			}
		}()
		if err := e.WaitParked(1); err != nil {
			c.Fatalf("A did not send its request: %v", err)
		}
		_ = e.Take(0)
		prevParked := e.Parked()
		_ = e.Write(data)
		if err := e.WaitReaction(prevParked); err != nil {
			c.Class("inconclusive-time-budget")
			return
		}
		// The attacker cannot answer the challenge with the peer's key; whatever
		// A replied, the attacker now just closes.
		if variant == 4 {
			// Control: A accepts the request of an honest-looking X and answers.
			if e.Parked() == 0 && e.Done() {
				c.Fatalf("A refused a well-formed request under the attacker's own identity: %v", e.Err)
			}
			c.Class("control-own-identity-answered")
		}
		e.Close()
		_ = e.WaitDone()
		if e.Panicked() {
			c.Fatalf("impersonation attempt (%s) panicked the link setup: %v", name, e.Err)
		}
		if variant != 4 {
			if l := a.Peer.GetLink(P.Addr.IP); l != nil {
				c.Fatalf("attacker without the peer's key obtained a link registered under the peer's address (%s)", name)
			}
			if e.Err == nil {
				c.Fatalf("link setup succeeded against an impersonator (%s)", name)
			}
			if s := a.St.GetSession(P.Addr.IP); s != nil && variant != 0 {
				c.Fatalf("a session/stored record for the peer's address exists after a request with a non-matching key (%s)", name)
			}
		}
		if len(a.Peer.GetLinks()) != 0 {
			c.Fatalf("a link is registered after an aborted handshake")
		}
		c.Eval(fmt.Sprintf("impersonate|%d", variant), variant != 4, func() any { return map[string]any{"variant": name, "A_err": fmt.Sprint(e.Err)} })
	})
}

var _ = peering.FrameOffset

// TestC04ReplayAfterRestart: an attacker recorded B's side of an earlier
// completed connection and replays it against A after A restarted (A's replay
// timestamps are gone, so only the fresh challenge protects it).
func TestC04ReplayAfterRestart(t *testing.T) {
	pool := ids.Routable()
	core.Run(t, core.Opts{ID: "C04", Quick: 400, Thorough: 15000}, func(c *core.Case) {
		ia := c.Pick("idA", len(pool))
		ib := c.Pick("idB", len(pool)-1)
		if ib >= ia {
			ib++
		}
		cfg := c04GenCfg(c, "cfg")
		if cfg.universe == "" {
			cfg.secret = ""
		}
		aDials := c.Bool("a.dials")
		vn := vnet.New()
		a, _ := vn.AddNode("A", pool[ia], vnet.NodeOpts{Store: cfg.store()})
		b, _ := vn.AddNode("B", pool[ib], vnet.NodeOpts{Store: cfg.store()})
		var prev *c04Run
		if aDials {
			prev = c04Handshake(c, a, b, c04Fault{kind: "none"}, nil, true)
		} else {
			prev = c04Handshake(c, b, a, c04Fault{kind: "none"}, nil, true)
		}
		if prev.inconcl {
			c.Class("inconclusive-time-budget")
			return
		}
		if prev.conn.A.Err != nil || prev.conn.B.Err != nil {
			c.Fatalf("honest handshake failed: %v / %v", prev.conn.A.Err, prev.conn.B.Err)
		}
		prev.conn.Teardown()
		bMsgs := prev.msgs[1] // B -> A when A dialled
		if !aDials {
			bMsgs = prev.msgs[0]
		}
		// A restarts: same identity and configuration, fresh state. Or A keeps
		// running and hours pass: the link is long gone, A's session for B
		// (with the record of the signing times it has seen) has expired and was
		// cleaned away; its peering manager is the one that made the recorded
		// connection.
		vn2 := vnet.New()
		a2, _ := vn2.AddNode("A'", pool[ia], vnet.NodeOpts{Store: cfg.store()})
		if c.Bool("hours-pass-instead-of-restart") {
			a2 = a
			a.St.VerifAgeSessions(time.Duration(c.Int("hours", 2, 48)) * time.Hour)
			a.St.VerifCleanSessions()
			if a.Peer.GetLink(b.IP()) != nil {
				// The teardown did not finish within the real-time budget (busy
				// machine): no verdict.
				c.Class("inconclusive-time-budget")
				return
			}
			c.Class("replay/hours-later-on-the-same-router")
		} else {
			c.Class("replay/after-restart")
		}
		upTo := c.Int("replay.messages", 1, 3)
		e := wire.DialOne(a2, aDials)
		defer func() {
			e.Close()
			_ = e.WaitDone()
			if e.Link != nil {
				e.Link.Close(nil)
			}
		}()
		if err := e.WaitParked(1); err != nil {
			c.Fatalf("A' did not send its request: %v", err)
		}
		for k := 0; k < upTo && k < len(bMsgs); k++ {
			for e.Parked() > 0 {
				_ = e.Take(0)
			}
			prevParked := e.Parked()
			if err := e.Write(bMsgs[k]); err != nil {
				break
			}
			if err := e.WaitReaction(prevParked); err != nil {
				c.Class("inconclusive-time-budget")
				return
			}
			if e.Done() {
				break
			}
		}
		if !e.Done() {
			e.Close()
			_ = e.WaitDone()
		}
		if e.Panicked() {
			c.Fatalf("replayed handshake panicked the link setup: %v", e.Err)
		}
		if e.Err == nil || a2.Peer.GetLink(b.IP()) != nil || len(a2.Peer.GetLinks()) != 0 {
			c.Fatalf("restarted router completed a handshake against a pure replay of %d recorded messages of an earlier connection (no key holder present)", upTo)
		}
		c.Eval(fmt.Sprintf("replay-after-restart|%d|dial=%v|u=%v|s=%v", upTo, aDials, cfg.universe != "", cfg.secret != ""), upTo >= 2, func() any {
			return map[string]any{"replayed_messages": upTo, "A_dials": aDials, "config": fmt.Sprintf("%+v", cfg), "A_err": fmt.Sprint(e.Err)}
		})
	})
}

// TestC04Overlap: two or three link setups between the same two routers overlap
// (any mix of directions, generated forwarding order of the handshake messages).
// Refusals are fine; but every setup that completes at both ends reports the
// other router's true address at each end and carries traffic both ways.
func TestC04Overlap(t *testing.T) {
	pool := ids.Routable()
	core.Run(t, core.Opts{ID: "C04", Quick: 800, Thorough: 30000}, func(c *core.Case) {
		ia := c.Pick("idA", len(pool))
		ib := c.Pick("idB", len(pool)-1)
		if ib >= ia {
			ib++
		}
		vn := vnet.New()
		a, err := vn.AddNode("A", pool[ia], vnet.NodeOpts{})
		if err != nil {
			c.Fatalf("node: %v", err)
		}
		b, err := vn.AddNode("B", pool[ib], vnet.NodeOpts{})
		if err != nil {
			c.Fatalf("node: %v", err)
		}
		w := &c16World{c: c, nodes: []*vnet.Node{a, b}}
		defer func() {
			for _, cc := range w.conns {
				cc.conn.Teardown()
			}
		}()
		k := c.Int("setups", 2, 3)
		lockstep := c.Chance("lockstep", 1, 2)
		// Half of the cases: the first setup is well under way (1..5 of its 6
		// messages forwarded) when the others are dialled.
		headStart := 0
		if c.Chance("head-start", 1, 2) {
			headStart = c.Int("head-start.messages", 1, 5)
			c.Class(fmt.Sprintf("overlap/head-start-%d", headStart))
		}
		var cs []*c16Conn
		dirs := ""
		for i := 0; i < k; i++ {
			x, y := 0, 1
			if c.Bool("reverse") {
				x, y = 1, 0
			}
			dirs += fmt.Sprintf(" %s->%s", w.nodes[x].Name, w.nodes[y].Name)
			cc := &c16Conn{conn: wire.Dial(w.nodes[x], w.nodes[y]), a: x, b: y}
			cs = append(cs, cc)
			w.conns = append(w.conns, cc)
			if i == 0 && headStart > 0 {
				w.advance(cc, headStart)
			}
			time.Sleep(2 * time.Millisecond)
		}
		w.log("overlapping setups:%s (lockstep=%v, head start %d)", dirs, lockstep, headStart)
		w.drive(cs, lockstep, -1)
		if w.inconcl {
			c.Class("inconclusive-time-budget")
			return
		}
		completed := 0
		for _, cc := range cs {
			if c16Completed(cc) != 2 {
				continue
			}
			completed++
			x, y := w.nodes[cc.a], w.nodes[cc.b]
			if cc.conn.A.Link.Peer() != y.IP() || cc.conn.B.Link.Peer() != x.IP() {
				c.Fatalf("a completed setup reports peers %s / %s, the routers are %s / %s (events: %v)", cc.conn.A.Link.Peer(), cc.conn.B.Link.Peer(), y.IP(), x.IP(), w.ops)
			}
			if cc.conn.A.Link.IsClosing() || cc.conn.B.Link.IsClosing() {
				continue
			}
			c04Traffic(c, &c04Run{conn: cc.conn}, x, y)
		}
		c.Eval(fmt.Sprintf("overlap|%s|%v|%d", dirs, lockstep, completed), completed > 0, func() any {
			return map[string]any{"kind": "overlapping setups", "setups": dirs, "lockstep": lockstep, "completed_at_both_ends": completed, "events": w.ops}
		})
		c.Class(fmt.Sprintf("overlap/completed=%d", completed))
	})
}

// c04Resign re-encodes a parked peering request with another challenge and
// signs it again with the key of its (genuine) sender.
func c04Resign(c *core.Case, msg []byte, challenge []byte, signer *ids.Identity) []byte {
	fb := frame.NewFrameBuilder()
	fb.SetFrameMargins(peering.FrameOffset, peering.FrameOverhead)
	ps := fb.GetPooledSlice(len(msg) + 64)
	copy(ps[2:], msg[2:])
	f, err := fb.ParseFrame(ps[2:len(msg)], ps, 2)
	if err != nil {
		c.Fatalf("parse parked request: %v", err)
	}
	var req c04Request
	if err := cbor.Unmarshal(f.MessageData(), &req); err != nil {
		c.Fatalf("decode parked request: %v", err)
	}
	src, dst, mt := f.SrcIP(), f.DstIP(), f.MessageType()
	f.ReturnToPool()
	req.Challenge = challenge
	body, _ := cbor.Marshal(&req)
	fr, err := fb.NewFrameV1(src, dst, mt, nil, body, nil)
	if err != nil {
		c.Fatalf("frame: %v", err)
	}
	fr.SetTTL(0)
	fr.SetSequenceTime(time.Now())
	_ = fr.SignRaw(signer.Addr.PrivateKey)
	fr.SetTTL(1)
	data, _ := fr.FrameDataWithMargins(2, 0)
	data = append([]byte(nil), data...)
	data[0], data[1] = byte(len(data)>>8), byte(len(data))
	fr.ReturnToPool()
	return data
}

func c04Challenge(c *core.Case, msg []byte) []byte {
	fb := frame.NewFrameBuilder()
	ps := fb.GetPooledSlice(len(msg) + 64)
	copy(ps[2:], msg[2:])
	f, err := fb.ParseFrame(ps[2:len(msg)], ps, 2)
	if err != nil {
		c.Fatalf("parse parked request: %v", err)
	}
	defer f.ReturnToPool()
	var req c04Request
	if err := cbor.Unmarshal(f.MessageData(), &req); err != nil {
		c.Fatalf("decode parked request: %v", err)
	}
	return append([]byte(nil), req.Challenge...)
}

// TestC04Relay: the far end of A's connection is an adversary that owns an
// ordinary identity C and, as C, runs a handshake of its own with the honest
// router B - with A's challenge in C's request. Everything B says (made out to
// C) is passed on to A. B never talks to A, the adversary has no key of B: A
// must not register a link to B.
func TestC04Relay(t *testing.T) {
	pool := ids.Routable()
	core.Run(t, core.Opts{ID: "C04", Quick: 60, Thorough: 3000}, func(c *core.Case) {
		ia := c.Pick("idA", len(pool))
		ib := (ia + 1 + c.Pick("idB", len(pool)-1)) % len(pool)
		ic := (ia + 1 + c.Pick("idC", len(pool)-1)) % len(pool)
		if ic == ib {
			ic = (ib + 1) % len(pool)
			if ic == ia {
				ic = (ic + 1) % len(pool)
			}
		}
		vn := vnet.New()
		a, err1 := vn.AddNode("A", pool[ia], vnet.NodeOpts{})
		b, err2 := vn.AddNode("B", pool[ib], vnet.NodeOpts{})
		cn, err3 := vn.AddNode("C", pool[ic], vnet.NodeOpts{})
		if err1 != nil || err2 != nil || err3 != nil {
			c.Fatalf("nodes: %v %v %v", err1, err2, err3)
		}
		aDials := c.Chance("a.dials", 3, 4)
		e := wire.DialOne(a, aDials)
		cb := wire.Dial(cn, b)
		defer func() {
			e.Close()
			_ = e.WaitDone()
			if e.Link != nil {
				e.Link.Close(nil)
			}
			cb.Teardown()
		}()
		step := func(end *wire.End, msg []byte) bool {
			prev := end.Parked()
			if err := end.Write(msg); err != nil {
				return false
			}
			return end.WaitReaction(prev) == nil
		}
		for _, x := range []*wire.End{e, cb.A, cb.B} {
			if err := x.WaitParked(1); err != nil {
				c.Class("inconclusive-time-budget")
				return
			}
		}
		reqA, reqC, reqB := e.Take(0), cb.A.Take(0), cb.B.Take(0)
		useA := c.Chance("copy-challenge", 4, 5)
		if useA {
			reqC = c04Resign(c, reqC, c04Challenge(c, reqA), pool[ic])
		}
		// B answers C's request (B's response echoes the challenge in it), C answers
		// B's request, B acknowledges C's response.
		if !step(cb.B, reqC) || cb.B.Parked() == 0 {
			c.Class("relay/b-did-not-answer")
			return
		}
		respB := cb.B.Take(0)
		if !step(cb.A, reqB) || cb.A.Parked() == 0 {
			c.Class("relay/c-did-not-answer")
			return
		}
		respC := cb.A.Take(0)
		if !step(cb.B, respC) || cb.B.Parked() == 0 {
			c.Class("relay/b-did-not-acknowledge")
			return
		}
		ackB := cb.B.Take(0)
		// All of it goes to A.
		for i, msg := range [][]byte{reqB, respB, ackB} {
			if e.Done() {
				break
			}
			if !step(e, msg) && !e.Done() {
				c.Class("inconclusive-time-budget")
				return
			}
			_ = i
		}
		// Give A the chance to finish what it started.
		if !e.Done() {
			e.Close()
		}
		_ = e.WaitDone()
		if e.Panicked() {
			c.Fatalf("relayed handshake panicked A's link setup: %v", e.Err)
		}
		if l := a.Peer.GetLink(b.IP()); l != nil || (e.Err == nil && e.Link != nil) {
			c.Fatalf("A registered a link to B (%v) although B's messages were made out to C and B never saw this connection (A dials=%v, A's challenge copied=%v, setup error: %v)", b.IP(), aDials, useA, e.Err)
		}
		c.Eval(fmt.Sprintf("relay|dials=%v|copy=%v", aDials, useA), useA, func() any {
			return map[string]any{"kind": "relay of B's messages for C", "a_dials": aDials, "challenge_copied": useA, "A_err": fmt.Sprint(e.Err)}
		})
	})
}

// c04BackToBack: two frames of one direction reach the other end in a single
// segment (a byte stream does not keep write boundaries): both must arrive.
func c04BackToBack(c *core.Case, ends [2]*wire.End, nodes [2]*vnet.Node) {
	if !c.Chance("traffic.back-to-back", 1, 2) {
		return
	}
	d := c.Pick("traffic.b2b.dir", 2)
	from, to := nodes[d], nodes[1-d]
	var stream []byte
	var want [][]byte
	for k := 0; k < 2; k++ {
		payload := c.Bytes("traffic.b2b.payload", c.Int("traffic.b2b.len", 1, 400))
		f, err := from.Builder.NewFrameV1(from.IP(), to.IP(), frame.NetworkTraffic, nil, payload, nil)
		if err != nil {
			c.Fatalf("frame: %v", err)
		}
		w, _ := f.FrameDataWithMargins(0, 0)
		want = append(want, append([]byte(nil), w...))
		if err := ends[d].Link.Send(f); err != nil {
			c.Fatalf("send: %v", err)
		}
		if err := ends[d].WaitParked(1); err != nil {
			c.Fatalf("frame handed to the link of %s never reached the wire: %v", from.Name, err)
		}
		stream = append(stream, ends[d].Take(0)...)
	}
	if err := ends[1-d].Write(stream); err != nil {
		c.Fatalf("write: %v", err)
	}
	for k := 0; k < 2; k++ {
		select {
		case g := <-to.SwitchIn:
			got, _ := g.FrameDataWithMargins(0, 0)
			if !bytes.Equal(got, want[k]) {
				c.Fatalf("frame %d of two sent back to back by %s arrived altered at %s", k+1, from.Name, to.Name)
			}
			g.ReturnToPool()
		case <-time.After(wire.Budget):
			c.Fatalf("two frames sealed by %s's link end reached %s in one segment, frame %d of them never arrives", from.Name, to.Name, k+1)
		}
	}
	c.Class("traffic-back-to-back")
}
