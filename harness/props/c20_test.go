package props

// C20 — Relay-only routers start, run and stop cleanly.
//
// Generator: configurations with the tun interface disabled: universe / secret
// (compatible pairs), lite, stub, isolation, 0-3 services, 0-3 friends, resolve
// entries, one or two tcp listeners on free loopback ports, optional API
// listener on a free loopback port, state path none or a temp JSON file; k =
// 1..3 cycles of construct -> Start -> second instance connects to the first
// -> both hold links -> one ping-pong -> Stop both.
// The cycles run in a child process (this test binary re-executed), so that a
// panic at start-up is an observation and not the death of the checker.
// Oracle: New succeeds without panic, Start returns nil, state / peering /
// switch / router workers are running, both instances hold a link to the
// other's true address, the ping is answered, Stop returns true on both, and
// the number of goroutines after cycle k is not above the number after cycle 1
// nor above the count before the cycle.

import (
	"encoding/json"
	"fmt"
	"io"
	"log/slog"
	"net"
	"os"
	"os/exec"
	"path/filepath"
	"runtime"
	"strings"
	"testing"
	"time"

	"github.com/mycoria/mycoria"
	"github.com/mycoria/mycoria/config"
	"github.com/mycoria/mycoria/m"

	"verif/core"
	"verif/ids"
	"verif/vnet"
)

var c20Opts = core.Opts{ID: "C20", Quick: 16, Thorough: 320}

type c20Job struct {
	Cycles int
	A, B   config.Store
	// Mutual: both routers list each other under connect (both dial).
	// Recheck: the periodic connect check of A is triggered while the link is up.
	// RestartB: B is stopped and a new B is constructed and started while A keeps running.
	Mutual, Recheck, RestartB bool
	// ViaFile: the configurations reach the routers through a JSON configuration
	// file (config.LoadConfig), as they do in the program.
	ViaFile bool
}

type c20Cycle struct {
	NewErrA, NewErrB     string
	StartErrA, StartErrB string
	Linked               bool
	LinkPeersOK          bool
	PingOK               bool
	WorkersSeen          []string
	StopA, StopB         bool
	RecheckOK            bool
	StopB1               bool
	NewErrB2, StartErrB2 string
	RePeered, RePingOK   bool
	GoBefore, GoAfter    int
	Leftover             string
}

type c20Result struct {
	Cycles []c20Cycle
	Fatal  string
}

func c20Settle() int {
	last := runtime.NumGoroutine()
	stable := 0
	for i := 0; i < 80; i++ {
		time.Sleep(100 * time.Millisecond)
		n := runtime.NumGoroutine()
		if n >= last {
			stable++
			if stable >= 4 {
				return n
			}
		} else {
			stable = 0
		}
		last = n
	}
	return last
}

// TestC20Child runs the cycles in the child process and prints a JSON result.
func TestC20Child(t *testing.T) {
	jobPath := os.Getenv("VERIF_C20_JOB")
	if jobPath == "" {
		t.Skip("child only")
	}
	slog.SetDefault(slog.New(slog.NewTextHandler(io.Discard, nil)))
	data, err := os.ReadFile(jobPath)
	if err != nil {
		t.Fatal(err)
	}
	var job c20Job
	if err := json.Unmarshal(data, &job); err != nil {
		t.Fatal(err)
	}
	var res c20Result
	out := func() {
		b, _ := json.Marshal(res)
		_ = os.WriteFile(jobPath+".result", b, 0o644)
	}
	defer out()
	parse := func(st config.Store) (*config.Config, error) {
		if job.ViaFile {
			return vnet.LoadViaFile(st, "json")
		}
		return st.Parse()
	}
	for cy := 0; cy < job.Cycles; cy++ {
		var cyc c20Cycle
		cyc.GoBefore = c20Settle()
		cfgA, err := parse(job.A)
		if err != nil {
			res.Fatal = "config A: " + err.Error()
			return
		}
		cfgB, err := parse(job.B)
		if err != nil {
			res.Fatal = "config B: " + err.Error()
			return
		}
		a, err := mycoria.New("verif", cfgA)
		if err != nil {
			cyc.NewErrA = err.Error()
			res.Cycles = append(res.Cycles, cyc)
			return
		}
		b, err := mycoria.New("verif", cfgB)
		if err != nil {
			cyc.NewErrB = err.Error()
			res.Cycles = append(res.Cycles, cyc)
			return
		}
		if err := a.Start(); err != nil {
			cyc.StartErrA = err.Error()
		}
		if err := b.Start(); err != nil {
			cyc.StartErrB = err.Error()
		}
		deadline := time.Now().Add(15 * time.Second)
		for time.Now().Before(deadline) {
			if a.Peering().GetLink(b.Identity().IP) != nil && b.Peering().GetLink(a.Identity().IP) != nil {
				cyc.Linked = true
				break
			}
			time.Sleep(20 * time.Millisecond)
		}
		if cyc.Linked {
			la, lb := a.Peering().GetLink(b.Identity().IP), b.Peering().GetLink(a.Identity().IP)
			cyc.LinkPeersOK = la.Peer() == b.Identity().IP && lb.Peer() == a.Identity().IP && len(a.Peering().GetLinks()) == 1 && len(b.Peering().GetLinks()) == 1
			// Frames may be dropped under load by design (non-blocking hand-offs),
			// so the ping is repeated.
			for try := 0; try < 20 && !cyc.PingOK; try++ {
				notify, _, err := a.Router().PingPong.Send(b.Identity().IP, true, 0)
				if err != nil {
					time.Sleep(200 * time.Millisecond)
					continue
				}
				select {
				case <-notify:
					cyc.PingOK = true
				case <-time.After(time.Second):
				}
			}
		}
		ping := func() bool {
			for try := 0; try < 20; try++ {
				notify, _, err := a.Router().PingPong.Send(b.Identity().IP, true, 0)
				if err != nil {
					time.Sleep(200 * time.Millisecond)
					continue
				}
				select {
				case <-notify:
					return true
				case <-time.After(time.Second):
				}
			}
			return false
		}
		oneLinkEach := func() bool {
			la, lb := a.Peering().GetLink(b.Identity().IP), b.Peering().GetLink(a.Identity().IP)
			return la != nil && lb != nil && len(a.Peering().GetLinks()) == 1 && len(b.Peering().GetLinks()) == 1
		}
		if cyc.Linked && cyc.PingOK && job.Recheck {
			// The connect check runs again (as it does every minute): with a mutual
			// configuration A now dials B although they are linked already.
			a.Peering().TriggerPeering()
			b.Peering().TriggerPeering()
			time.Sleep(400 * time.Millisecond)
			cyc.RecheckOK = oneLinkEach() && ping()
		}
		// Which workers are running?
		buf := make([]byte, 4<<20)
		stack := string(buf[:runtime.Stack(buf, true)])
		for name, marker := range map[string]string{
			"state": "state.(*State).sessionCleanerWorker", "peering-listen": "peering.(*Peering).listenMgr", "peering-connect": "peering.(*Peering).connectMgr",
			"switch": "switchr.(*Switch).handler", "router": "router.(*Router).frameHandler",
		} {
			if strings.Contains(stack, marker) {
				cyc.WorkersSeen = append(cyc.WorkersSeen, name)
			}
		}
		if cyc.Linked && cyc.PingOK && job.RestartB {
			cyc.StopB1 = b.Stop()
			cfgB2, err := parse(job.B)
			if err != nil {
				res.Fatal = "config B (restart): " + err.Error()
				return
			}
			b, err = mycoria.New("verif", cfgB2)
			if err != nil {
				cyc.NewErrB2 = err.Error()
				res.Cycles = append(res.Cycles, cyc)
				a.Stop()
				return
			}
			if err := b.Start(); err != nil {
				cyc.StartErrB2 = err.Error()
			}
			deadline := time.Now().Add(20 * time.Second)
			for time.Now().Before(deadline) {
				if oneLinkEach() {
					cyc.RePeered = true
					break
				}
				time.Sleep(20 * time.Millisecond)
			}
			if cyc.RePeered {
				cyc.RePingOK = ping()
			}
		}
		cyc.StopB = b.Stop()
		cyc.StopA = a.Stop()
		cyc.GoAfter = c20Settle()
		if cyc.GoAfter > cyc.GoBefore {
			// Be patient before calling it a leak.
			time.Sleep(3 * time.Second)
			cyc.GoAfter = c20Settle()
		}
		if cyc.GoAfter > cyc.GoBefore {
			n := runtime.Stack(buf, true)
			var mine []string
			for _, g := range strings.Split(string(buf[:n]), "\n\n") {
				if strings.Contains(g, "mycoria/") && !strings.Contains(g, "TestC20Child") {
					lines := strings.Split(g, "\n")
					if len(lines) > 6 {
						lines = lines[:6]
					}
					mine = append(mine, strings.Join(lines, " | "))
				}
			}
			if len(mine) > 6 {
				mine = mine[:6]
			}
			cyc.Leftover = strings.Join(mine, "\n")
		}
		res.Cycles = append(res.Cycles, cyc)
	}
}

// c20FreePort hands out loopback ports from a range of this shard's own (so
// that parallel shards do not race for the same "free" port), probing each.
var c20NextPort int

func c20FreePort() int {
	shard := 0
	if v := os.Getenv("VERIF_SHARD"); v != "" {
		_, _ = fmt.Sscanf(v, "%d/", &shard)
	}
	base, span := 20000+(shard%16)*2000+(os.Getpid()%4)*500, 500
	for tries := 0; tries < span; tries++ {
		port := base + c20NextPort%span
		c20NextPort++
		l, err := net.Listen("tcp", fmt.Sprintf("127.0.0.1:%d", port))
		if err != nil {
			continue
		}
		l.Close()
		if c20V6 {
			l6, err := net.Listen("tcp", fmt.Sprintf("[::1]:%d", port))
			if err != nil {
				continue
			}
			l6.Close()
		}
		return port
	}
	l, err := net.Listen("tcp", "127.0.0.1:0")
	if err != nil {
		return 0
	}
	defer l.Close()
	return l.Addr().(*net.TCPAddr).Port
}

var c20V6 = func() bool {
	l, err := net.Listen("tcp", "[::1]:0")
	if err != nil {
		return false
	}
	l.Close()
	return true
}()

func c20HasV6() bool { return c20V6 }

func TestC20(t *testing.T) {
	pool := ids.Routable()
	// Geo-marked addresses whose country bits match no entry of the country table
	// (valid identities; the router falls back to the region prefix for them).
	var noCountry []int
	for i, id := range pool {
		if _, err := m.LookupCountryMarker(id.Addr.IP); err != nil && m.GetAddressType(id.Addr.IP) == m.TypeGeoMarked {
			noCountry = append(noCountry, i)
		}
	}
	core.Run(t, c20Opts, func(c *core.Case) {
		ia := c.Pick("idA", len(pool))
		if len(noCountry) > 0 && c.Chance("idA.no-country-entry", 1, 4) {
			ia = noCountry[c.Pick("idA.nc", len(noCountry))]
			c.Class("identity-geo-marked-without-country-entry")
		}
		ib := c.Pick("idB", len(pool)-1)
		if ib >= ia {
			ib++
		}
		work, err := os.MkdirTemp(c18Scratch(), "c20-")
		if err != nil {
			c.Fatalf("tempdir: %v", err)
		}
		defer os.RemoveAll(work)
		universe := core.OneOf(c, "universe", "", "", "testverse", "ünï-verse")
		secret := ""
		if universe != "" {
			secret = core.OneOf(c, "secret", "", "s3cret")
		}
		mk := func(label string, id *ids.Identity) config.Store {
			st := config.Store{}
			st.Router.Address = id.Addr.Store()
			st.Router.Universe, st.Router.UniverseSecret = universe, secret
			st.Router.Lite = c.Chance(label+".lite", 1, 4)
			st.Router.Stub = c.Chance(label+".stub", 1, 4)
			st.Router.Isolate = c.Chance(label+".isolate", 1, 4)
			st.System.DisableTun = true
			nFriends := c.Int(label+".friends", 0, 3)
			for i := 0; i < nFriends; i++ {
				st.FriendConfigs = append(st.FriendConfigs, config.FriendConfig{Name: fmt.Sprintf("friend%d", i), IP: pool[(ia+ib+i+5)%len(pool)].Addr.IP.String()})
			}
			// Services: every documented scheme, explicit ports over the whole
			// 16-bit range (edges weighted) or the scheme's default, every access
			// rule; one service per protocol and port (a second one is a
			// configuration error by design).
			taken := map[string]bool{}
			for i, n := 0, c.Weighted(label+".services", 1, 2, 3, 3, 2); i < n; i++ {
				scheme := core.OneOf(c, label+".svc.scheme", "tcp", "tcp", "udp", "http", "https", "icmp6", "ping6")
				port := -1
				if scheme == "tcp" || scheme == "udp" || c.Bool(label+".svc.port.given") {
					if c.Bool(label + ".svc.port.edge") {
						port = core.OneOf(c, label+".svc.port", 1, 22, 80, 443, 1024, 8080, 32767, 32768, 40000, 47369, 65534, 65535)
					} else {
						port = c.Int(label+".svc.port.any", 1, 65535)
					}
				}
				var keys []string
				switch scheme {
				case "tcp":
					keys = []string{fmt.Sprintf("6-%d", port)}
				case "udp":
					keys = []string{fmt.Sprintf("17-%d", port)}
				case "http", "https":
					eff := port
					if eff < 0 {
						eff = map[string]int{"http": 80, "https": 443}[scheme]
					}
					keys = []string{fmt.Sprintf("6-%d", eff), fmt.Sprintf("17-%d", eff)}
				default:
					keys, port = []string{"58"}, -1
				}
				dup := false
				for _, k := range keys {
					dup = dup || taken[k]
				}
				if dup {
					continue
				}
				for _, k := range keys {
					taken[k] = true
				}
				url := scheme + "://" + core.OneOf(c, label+".svc.host", "", fmt.Sprintf("svc%d.myco", i))
				if scheme == "icmp6" || scheme == "ping6" {
					url = scheme + ":"
				} else if port >= 0 {
					url += fmt.Sprintf(":%d", port)
				}
				sc := config.ServiceConfig{Name: fmt.Sprintf("svc%d", i), URL: url, Advertise: c.Bool(label + ".advertise")}
				if c.Bool(label + ".svc.described") {
					sc.Description = "service <" + scheme + "> & more"
				}
				switch c.Pick(label+".svc.access", 3) {
				case 0:
					sc.Public = true
				case 1:
					sc.Friends = true
				default:
					if nFriends > 0 && c.Bool(label+".svc.for.friend") {
						sc.For = append(sc.For, fmt.Sprintf("friend%d", c.Pick(label+".svc.for.fi", nFriends)))
					} else {
						sc.For = append(sc.For, pool[(ia+ib+11)%len(pool)].Addr.IP.String())
					}
					sc.Friends = c.Bool(label + ".svc.for.plus-friends")
				}
				if port >= 32768 {
					c.Class("service-port-above-32767")
				}
				st.ServiceConfigs = append(st.ServiceConfigs, sc)
			}
			if c.Bool(label + ".resolve") {
				st.ResolveConfig = map[string]string{"files.myco": pool[(ia+7)%len(pool)].Addr.IP.String()}
			}
			if c.Bool(label + ".statefile") {
				st.System.StatePath = filepath.Join(work, label+"-state.json")
				if c.Chance(label+".statefile.of-an-earlier-run", 1, 2) {
					// An earlier run of this router left its state file; it had not
					// heard of any router ("{}" is what the storage writes then), or
					// only its router list / mapping list is empty.
					body := core.OneOf(c, label+".statefile.body", `{}`, `{}`, `{"routers":{}}`, `{"mappings":{}}`, "{}\n")
					if err := os.WriteFile(st.System.StatePath, []byte(body), 0o600); err != nil {
						c.Fatalf("write state file: %v", err)
					}
					c.Class("state-file-of-an-earlier-run-that-learned-nothing")
				}
			}
			if c.Chance(label+".api", 1, 3) {
				st.System.APIListen = fmt.Sprintf("127.0.0.1:%d", c20FreePort())
			}
			return st
		}
		A, B := mk("A", pool[ia]), mk("B", pool[ib])
		// Loopback is 127.0.0.1 or, where the machine has it, the IPv6 literal [::1].
		host := "127.0.0.1"
		if c20HasV6() && c.Chance("loopback.v6", 1, 3) {
			host = "[::1]"
			c.Class("loopback-ipv6-literal")
		}
		portA := c20FreePort()
		A.Router.Listen = []string{fmt.Sprintf("tcp://%s:%d", host, portA)}
		if c.Bool("A.second-listener") {
			A.Router.Listen = append(A.Router.Listen, fmt.Sprintf("tcp://127.0.0.1:%d", c20FreePort()))
		}
		B.Router.Connect = []string{fmt.Sprintf("tcp://%s:%d", host, portA)}
		mutual := false
		if c.Chance("B.listens", 2, 3) {
			portB := c20FreePort()
			B.Router.Listen = []string{fmt.Sprintf("tcp://%s:%d", host, portB)}
			if c.Chance("mutual", 2, 3) {
				A.Router.Connect = []string{fmt.Sprintf("tcp://%s:%d", host, portB)}
				mutual = true
			}
		}
		job := c20Job{Cycles: c.Int("cycles", 1, 3), A: A, B: B, Mutual: mutual, Recheck: c.Chance("recheck", 2, 3), RestartB: c.Chance("restartB", 1, 2), ViaFile: c.Chance("config.via-file", 1, 3)}
		jobPath := filepath.Join(work, "job.json")
		data, _ := json.Marshal(job)
		if err := os.WriteFile(jobPath, data, 0o644); err != nil {
			c.Fatalf("job: %v", err)
		}
		cmd := exec.Command(os.Args[0], "-test.run", "^TestC20Child$", "-test.count", "1", "-test.timeout", "300s")
		cmd.Env = append(os.Environ(), "VERIF_C20_JOB="+jobPath, "VERIF_STATS_OUT=", "VERIF_REPLAY=")
		outb, runErr := cmd.CombinedOutput()
		var res c20Result
		rdata, rerr := os.ReadFile(jobPath + ".result")
		if rerr == nil {
			_ = json.Unmarshal(rdata, &res)
		}
		desc := fmt.Sprintf("host=%s ", host) + fmt.Sprintf("universe=%q secret=%v A{lite=%v stub=%v isolate=%v services=%d friends=%d state=%v api=%v listeners=%d} B{lite=%v stub=%v state=%v api=%v listens=%v} cycles=%d",
			universe, secret != "", A.Router.Lite, A.Router.Stub, A.Router.Isolate, len(A.ServiceConfigs), len(A.FriendConfigs), A.System.StatePath != "", A.System.APIListen != "", len(A.Router.Listen),
			B.Router.Lite, B.Router.Stub, B.System.StatePath != "", B.System.APIListen != "", len(B.Router.Listen) > 0, job.Cycles) +
			fmt.Sprintf(" mutual=%v recheck=%v restartB=%v via-file=%v", job.Mutual, job.Recheck, job.RestartB, job.ViaFile)
		c.Note("%s", desc)
		if runErr != nil || rerr != nil {
			tail := string(outb)
			if i := strings.Index(tail, "panic:"); i >= 0 {
				tail = tail[i:]
			}
			c.Fatalf("relay-only routers crashed the process (%v): %s", runErr, trunc(tail, 1500))
		}
		if res.Fatal != "" {
			c.Fatalf("child could not run: %s", res.Fatal)
		}
		for _, cy := range res.Cycles {
			for _, e := range []string{cy.NewErrA, cy.NewErrB, cy.StartErrA, cy.StartErrB, cy.NewErrB2, cy.StartErrB2} {
				if strings.Contains(e, "address already in use") {
					// Somebody else on this machine took a port between probing and
					// listening: nothing was learned about the router.
					c.Class("inconclusive-port-taken")
					return
				}
			}
		}
		if len(res.Cycles) != job.Cycles {
			c.Fatalf("only %d of %d cycles completed: %+v", len(res.Cycles), job.Cycles, res.Cycles)
		}
		peered := true
		for i, cy := range res.Cycles {
			where := fmt.Sprintf("cycle %d of %d (%s)", i+1, job.Cycles, desc)
			if cy.NewErrA != "" || cy.NewErrB != "" {
				c.Fatalf("%s: constructing a relay-only router failed: %q %q", where, cy.NewErrA, cy.NewErrB)
			}
			if cy.StartErrA != "" || cy.StartErrB != "" {
				c.Fatalf("%s: Start failed: %q %q", where, cy.StartErrA, cy.StartErrB)
			}
			for _, need := range []string{"state", "peering-listen", "peering-connect", "switch", "router"} {
				found := false
				for _, s := range cy.WorkersSeen {
					if s == need {
						found = true
					}
				}
				if !found {
					c.Fatalf("%s: no %s worker is running after Start (seen %v)", where, need, cy.WorkersSeen)
				}
			}
			if !cy.Linked {
				c.Fatalf("%s: the two routers did not peer over loopback within 15 s", where)
			}
			if !cy.LinkPeersOK {
				c.Fatalf("%s: links do not report the other router's true address", where)
			}
			if !cy.PingOK {
				c.Fatalf("%s: ping between the peered routers was not answered", where)
			}
			if job.Recheck && !cy.RecheckOK {
				c.Fatalf("%s: after the connect check ran again the routers are not linked by exactly one working link each any more", where)
			}
			if job.RestartB {
				if !cy.StopB1 {
					c.Fatalf("%s: Stop of B (before its restart) reported failure", where)
				}
				if cy.NewErrB2 != "" || cy.StartErrB2 != "" {
					c.Fatalf("%s: constructing / starting B again failed: %q %q", where, cy.NewErrB2, cy.StartErrB2)
				}
				if !cy.RePeered {
					c.Fatalf("%s: after B was stopped and started again the two routers did not peer again within 20 s", where)
				}
				if !cy.RePingOK {
					c.Fatalf("%s: ping after re-peering was not answered", where)
				}
			}
			if !cy.StopA || !cy.StopB {
				c.Fatalf("%s: Stop reported failure (A=%v B=%v)", where, cy.StopA, cy.StopB)
			}
			if cy.GoAfter > cy.GoBefore {
				c.Fatalf("%s: %d goroutines before the cycle, %d after Stop; left running:\n%s", where, cy.GoBefore, cy.GoAfter, cy.Leftover)
			}
			peered = peered && cy.PingOK
		}
		first, last := res.Cycles[0], res.Cycles[len(res.Cycles)-1]
		if last.GoAfter > first.GoAfter {
			c.Fatalf("goroutines accumulate over start/stop cycles: %d after cycle 1, %d after cycle %d (%s); left running:\n%s", first.GoAfter, last.GoAfter, len(res.Cycles), desc, last.Leftover)
		}
		c.Eval(desc, peered, func() any { return map[string]any{"config": desc, "cycles": res.Cycles} })
	})
}
