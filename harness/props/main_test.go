package props

import (
	"io"
	"log/slog"
	"os"
	"testing"

	"verif/core"
)

func TestMain(m *testing.M) {
	// The code under test logs through slog; keep the output quiet unless asked.
	if os.Getenv("VERIF_LOG") == "" {
		slog.SetDefault(slog.New(slog.NewTextHandler(io.Discard, nil)))
	}
	code := m.Run()
	core.Flush()
	os.Exit(code)
}
