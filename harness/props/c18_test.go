package props

// C18 — Stored router and mapping state survives crashes and round-trips exactly.
//
// Round trip: generated states (0..200 routers with public info lists, universe
// strings, offline flag, timestamps incl. zero / sub-second / other zones, and
// 0..200 mappings; strings from valid Unicode incl. quotes, <>&, RTL, astral
// plane) are built through the real SaveRouter/SaveMapping API, written by the
// real Stop() and reloaded by NewJSONFileStorage.
// Crash points: a child process (this test binary re-executed) loads an old
// state, applies the edits and calls the real Stop() under strace; the parent
// parses the trace into the ordered list of file-mutating system calls on the
// state directory and enumerates every crash prefix - after each completed
// call and inside each write at every byte offset (exhaustive for small
// files, edges + generated offsets for big ones). Each prefix is materialised
// in a fresh directory.
// Oracle: on every materialised directory NewJSONFileStorage succeeds and its
// content equals the complete old state or the complete new state.

import (
	"bufio"
	"bytes"
	"encoding/json"
	"fmt"
	"net/netip"
	"os"
	"os/exec"
	"os/signal"
	"path/filepath"
	"regexp"
	"sort"
	"strconv"
	"strings"
	"syscall"
	"testing"
	"time"

	"github.com/mycoria/crop"
	"github.com/mycoria/mycoria"
	"github.com/mycoria/mycoria/config"
	"github.com/mycoria/mycoria/m"
	"github.com/mycoria/mycoria/state"
	"github.com/mycoria/mycoria/storage"

	"verif/core"
	"verif/ids"
	"verif/vnet"
)

var c18Opts = core.Opts{ID: "C18", Quick: 300, Thorough: 12000}

var c18Strings = []string{"", "plain", "with \"quotes\" and \\backslash", "<script>&amp;</script>", "مرحبا بالعالم", "日本語テキスト", "emoji 😀🚀 astral 𝔘𝔫𝔦", "line\nbreak\ttab", "nul\u0001ctl", strings.Repeat("long-", 800), "ünïcödé", "a/b?c=d#e", "100% of %s and %d, Main%20Page", "ends with a percent sign %",
	strings.Repeat("日本語", 120), "x" + strings.Repeat("ü", 200), strings.Repeat("😀", 70)}

// c18Open loads the state file the way the router does: the constructor loads
// it, then the module group starts the module (and stops it at shutdown).
func c18Open(path string) (*storage.JSONFileStorage, error) {
	s, err := storage.NewJSONFileStorage(path)
	if err != nil {
		return nil, err
	}
	if err := storage.Storage(s).Start(); err != nil {
		return nil, fmt.Errorf("start of the storage module: %w", err)
	}
	return s, nil
}

// c18Tokens are the pieces composed strings are made of: everything that means
// something to a JSON encoder, a JSON decoder, an HTML-safe escaper, a printf or
// a text post-processor of the written file - as literal text inside a value.
var c18Tokens = []string{
	"\\", "\"", "/", "u0026", "u003c", "u003e", "u2028", "u0000", "ud83d", "\\u0026", "\\u003c", "\\u003e", "\\\\u0026", "\\n", "\\\"",
	"<", ">", "&", "&amp;", "%", "%s", "%v", "%!", "%%", "{", "}", "[", "]", ",", ":", "null", "true", "0", "-1e9", " ", "\t", "\n", "\r", "\b", "\f",
	"\x7f", "\u2028", "\u2029", "\ufeff", "\ufffd", "é", "日", "😀", "a", "Z", "$", "`", "'", "#", "\\x", "\\/",
}

// c18Start is a start of the router on a state file. Either the storage alone
// (constructor + module start), or the way the program does it: mycoria.New on
// a relay-only configuration that names the state file, which loads the
// storage and puts the state manager on top of it; the storage module is then
// started as the module group would start it.
func c18Start(path string, viaInstance bool) (*storage.JSONFileStorage, error) {
	if !viaInstance {
		return c18Open(path)
	}
	st := config.Store{}
	st.Router.Address = ids.Get(0).Addr.Store()
	st.Router.Connect = []string{"tcp://192.0.2.1:47369"}
	st.System.DisableTun = true
	st.System.StatePath = path
	cfg, err := st.Parse()
	if err != nil {
		return nil, fmt.Errorf("harness configuration refused: %w", err)
	}
	inst, err := mycoria.New("verif", cfg)
	if err != nil {
		return nil, err
	}
	s, ok := inst.Storage().(*storage.JSONFileStorage)
	if !ok {
		return nil, fmt.Errorf("instance storage is a %T", inst.Storage())
	}
	if err := storage.Storage(s).Start(); err != nil {
		return nil, fmt.Errorf("start of the storage module: %w", err)
	}
	return s, nil
}

func c18Str(c *core.Case, label string) string {
	switch c.Weighted(label+".kind", 2, 3, 3) {
	case 0:
		return fmt.Sprintf("s-%x", c.Uint64(label+".v"))
	case 1:
		var sb strings.Builder
		for i, n := 0, c.Int(label+".tokens", 1, 8); i < n; i++ {
			sb.WriteString(c18Tokens[c.Pick(label+".token", len(c18Tokens))])
		}
		return sb.String()
	}
	return c18Strings[c.Pick(label, len(c18Strings))]
}

func c18Time(c *core.Case, label string) time.Time {
	switch c.Pick(label, 6) {
	case 0:
		return time.Time{}
	case 1:
		return time.Unix(int64(c.Uniform(label+".s", 0, 2_000_000_000)), 0).UTC()
	case 2:
		return time.Unix(int64(c.Uniform(label+".s", 0, 2_000_000_000)), int64(c.Uniform(label+".ns", 0, 999_999_999)))
	case 3:
		return time.Unix(int64(c.Uniform(label+".s", 0, 2_000_000_000)), 123456789).In(time.FixedZone("x", 3600*c.Int(label+".zone", -11, 13)))
	case 4:
		return time.Date(1, 1, 1, 0, 0, 1, 0, time.UTC)
	default:
		return time.Now()
	}
}

type c18Router struct {
	IP      netip.Addr
	Hash    string
	Type    string
	Key     []byte
	Easing  uint64
	HasInfo bool
	// InfoViaState: the public info is added through the state manager.
	InfoViaState bool
	// ViaAddRouter: the router becomes known the way it does in the program: a
	// handler passes the identity it has verified to the state manager.
	ViaAddRouter bool
	Info         m.RouterInfo
	Universe     string
	Offline      bool
	Created      time.Time
	Updated      time.Time
	Used         *time.Time
}

type c18Mapping struct {
	Domain string
	Router netip.Addr
}

// c18Spec is a generated state in a serialisable form (handed to the child).
type c18Spec struct {
	Routers  []c18Router
	Mappings []c18Mapping
	// Deletions applied after the additions (for "new" states derived from old ones).
	DelRouters  []netip.Addr
	DelMappings []string
	// ViaStateAdd: routers marked ViaAddRouter (and eased ones without info)
	// are handed to the state manager's AddRouter, which stamps them with the
	// current time - only where one storage is compared with its own reload.
	ViaStateAdd bool `json:"-"`
}

func c18Addr(c *core.Case, label string) netip.Addr {
	a := [16]byte{0xfd}
	b := c.Bytes(label, 15)
	copy(a[1:], b)
	return netip.AddrFrom16(a)
}

func c18GenSpec(c *core.Case, maxRouters, maxMappings int) c18Spec {
	var sp c18Spec
	nr := c.Int("routers", 0, maxRouters)
	for i := 0; i < nr; i++ {
		r := c18Router{IP: c18Addr(c, "r.ip"), Hash: core.OneOf(c, "r.hash", "BLAKE3", "SHA2_256", ""), Type: core.OneOf(c, "r.type", "Ed25519", ""),
			Key: c.Bytes("r.key", core.OneOf(c, "r.keylen", 32, 32, 0, 33)), Easing: uint64(core.OneOf(c, "r.easing", 0, 0, 1, 1<<40)),
			Universe: c18Str(c, "r.universe"), Offline: c.Bool("r.offline"), Created: c18Time(c, "r.created"), Updated: c18Time(c, "r.updated")}
		if c.Bool("r.used") {
			t := c18Time(c, "r.usedat")
			r.Used = &t
		}
		if c.Chance("r.info", 2, 3) {
			r.HasInfo = true
			r.InfoViaState = c.Chance("r.info.via-state-manager", 1, 3)
			r.ViaAddRouter = r.InfoViaState && c.Bool("r.via-add-router")
			r.Info.Version = c18Str(c, "i.version")
			for k, n := 0, c.Int("i.listeners", 0, 8); k < n; k++ {
				r.Info.Listeners = append(r.Info.Listeners, c18Str(c, "i.listener"))
			}
			for k, n := 0, c.Int("i.iana", 0, 4); k < n; k++ {
				r.Info.IANA = append(r.Info.IANA, c18Str(c, "i.iana.v"))
			}
			for k, n := 0, c.Int("i.services", 0, 8); k < n; k++ {
				r.Info.PublicServices = append(r.Info.PublicServices, m.RouterService{Name: c18Str(c, "svc.n"), Description: c18Str(c, "svc.d"), Domain: c18Str(c, "svc.dom"), URL: c18Str(c, "svc.u")})
			}
		}
		sp.Routers = append(sp.Routers, r)
	}
	nm := c.Int("mappings", 0, maxMappings)
	for i := 0; i < nm; i++ {
		sp.Mappings = append(sp.Mappings, c18Mapping{Domain: c18Str(c, "map.domain") + fmt.Sprintf("-%d.myco", i), Router: c18Addr(c, "map.ip")})
	}
	return sp
}

// c18Apply applies a spec to a storage through its real API.
func c18Apply(s *storage.JSONFileStorage, sp c18Spec) error {
	var stateMgr *state.State
	for _, r := range sp.Routers {
		r := r
		sr := &storage.StoredRouter{
			Address:  &m.PublicAddress{IP: r.IP, Hash: "", Type: "", PublicKey: r.Key, Easing: r.Easing},
			Universe: r.Universe, Offline: r.Offline, CreatedAt: r.Created, UpdatedAt: r.Updated, UsedAt: r.Used,
		}
		sr.Address.Hash = hashOf(r.Hash)
		sr.Address.Type = typeOf(r.Type)
		viaState := r.HasInfo && r.InfoViaState
		if r.HasInfo && !viaState {
			info := r.Info
			sr.PublicInfo = &info
		}
		if sp.ViaStateAdd && (r.ViaAddRouter || (!r.HasInfo && r.Easing != 0 && len(r.Key)%2 == 0)) {
			if stateMgr == nil {
				stateMgr = state.New(vnet.NewParty(ids.Get(1)), s)
			}
			_ = s.DeleteRouter(r.IP)
			given := *sr.Address
			if err := stateMgr.AddRouter(sr.Address); err != nil {
				return fmt.Errorf("AddRouter: %w", err)
			}
			back, err := s.GetRouter(r.IP)
			if err != nil || back == nil || back.Address == nil {
				return fmt.Errorf("router %s handed to the state manager is not in the storage: %v", r.IP, err)
			}
			if a := back.Address; a.IP != given.IP || a.Hash != given.Hash || a.Type != given.Type || string(a.PublicKey) != string(given.PublicKey) || a.Easing != given.Easing {
				return fmt.Errorf("the identity stored for %s is not the one handed to the state manager: stored hash=%q type=%q key=%x easing=%d, given hash=%q type=%q key=%x easing=%d",
					r.IP, a.Hash, a.Type, []byte(a.PublicKey), a.Easing, given.Hash, given.Type, []byte(given.PublicKey), given.Easing)
			}
		} else if err := s.SaveRouter(sr); err != nil {
			return err
		}
		if viaState {
			// The way public info gets into the storage in the router: the
			// announcement handler hands it to the state manager.
			if stateMgr == nil {
				stateMgr = state.New(vnet.NewParty(ids.Get(1)), s)
			}
			info := r.Info
			if err := stateMgr.AddPublicRouterInfo(r.IP, &info); err != nil {
				return fmt.Errorf("AddPublicRouterInfo: %w", err)
			}
		}
	}
	for _, mp := range sp.Mappings {
		if err := s.SaveMapping(mp.Domain, mp.Router); err != nil {
			return err
		}
	}
	for _, ip := range sp.DelRouters {
		if err := s.DeleteRouter(ip); err != nil {
			return err
		}
	}
	for _, d := range sp.DelMappings {
		if err := s.DeleteMapping(d); err != nil {
			return err
		}
	}
	return nil
}

// c18Canon renders the complete content of a storage canonically.
func c18Canon(s *storage.JSONFileStorage) (string, error) {
	var lines []string
	q := storage.NewRouterQuery(nil, nil, 1_000_000)
	if err := s.QueryRouters(q); err != nil {
		return "", err
	}
	for _, r := range q.Result() {
		var b strings.Builder
		if r.Address != nil {
			fmt.Fprintf(&b, "router %s hash=%q type=%q key=%x easing=%d", r.Address.IP, r.Address.Hash, r.Address.Type, []byte(r.Address.PublicKey), r.Address.Easing)
		} else {
			fmt.Fprintf(&b, "router <nil address>")
		}
		fmt.Fprintf(&b, " universe=%q offline=%v created=%d/%v updated=%d/%v", r.Universe, r.Offline, r.CreatedAt.UnixNano(), r.CreatedAt.IsZero(), r.UpdatedAt.UnixNano(), r.UpdatedAt.IsZero())
		if r.UsedAt != nil {
			fmt.Fprintf(&b, " used=%d/%v", r.UsedAt.UnixNano(), r.UsedAt.IsZero())
		} else {
			b.WriteString(" used=nil")
		}
		if r.PublicInfo != nil {
			fmt.Fprintf(&b, " info{v=%q l=%q i=%q", r.PublicInfo.Version, r.PublicInfo.Listeners, r.PublicInfo.IANA)
			for _, sv := range r.PublicInfo.PublicServices {
				fmt.Fprintf(&b, " svc(%q,%q,%q,%q)", sv.Name, sv.Description, sv.Domain, sv.URL)
			}
			b.WriteString("}")
		} else {
			b.WriteString(" info=nil")
		}
		lines = append(lines, b.String())
	}
	ms, err := s.QueryMappings("")
	if err != nil {
		return "", err
	}
	for _, mp := range ms {
		lines = append(lines, fmt.Sprintf("mapping %q -> %s created=%d", mp.Domain, mp.Router, mp.Created.UnixNano()))
	}
	sort.Strings(lines)
	return strings.Join(lines, "\n"), nil
}

func TestC18RoundTrip(t *testing.T) {
	core.Run(t, c18Opts, func(c *core.Case) {
		dir, err := os.MkdirTemp(c18Scratch(), "c18rt-")
		if err != nil {
			c.Fatalf("tempdir: %v", err)
		}
		defer os.RemoveAll(dir)
		path := filepath.Join(dir, "state.json")
		big := c.Chance("big", 1, 10)
		maxR, maxM := 12, 12
		if big {
			maxR, maxM = 200, 200
		}
		sp := c18GenSpec(c, maxR, maxM)
		sp.ViaStateAdd = true
		via := c.Chance("start.via-instance", 1, 2)
		if via {
			c.Class("restart-through-the-instance-constructor")
		}
		s, err := c18Open(path)
		if err != nil {
			c.Fatalf("new storage: %v", err)
		}
		if err := c18Apply(s, sp); err != nil {
			c.Fatalf("apply: %v", err)
		}
		want, err := c18Canon(s)
		if err != nil {
			c.Fatalf("canon: %v", err)
		}
		if err := s.Stop(); err != nil {
			c.Fatalf("Stop failed: %v", err)
		}
		re, err := c18Start(path, via)
		if err != nil {
			c.Fatalf("reload of a state written by Stop failed: %v", err)
		}
		got, err := c18Canon(re)
		if err != nil {
			c.Fatalf("canon: %v", err)
		}
		if got != want {
			c.Fatalf("reloaded state differs from the saved one:\n%s", c18Diff(want, got))
		}
		// A second cycle (load -> stop -> load) is stable too.
		if err := re.Stop(); err != nil {
			c.Fatalf("second Stop failed: %v", err)
		}
		re2, err := c18Start(path, via)
		if err != nil {
			c.Fatalf("second reload failed: %v", err)
		}
		if got2, _ := c18Canon(re2); got2 != want {
			c.Fatalf("state changed on the second save/load cycle:\n%s", c18Diff(want, got2))
		}
		nt := len(sp.Routers) > 0 && len(sp.Mappings) > 0
		c.Eval(fmt.Sprintf("rt|%x", fnvBytes([]byte(want))), nt, func() any {
			return map[string]any{"kind": "round-trip", "routers": len(sp.Routers), "mappings": len(sp.Mappings), "bytes": len(want)}
		})
	})
}

func hashOf(s string) crop.Hash        { return crop.Hash(s) }
func typeOf(s string) crop.KeyPairType { return crop.KeyPairType(s) }

func c18Diff(want, got string) string {
	w, g := strings.Split(want, "\n"), strings.Split(got, "\n")
	in := map[string]int{}
	for _, l := range w {
		in[l]++
	}
	var out []string
	for _, l := range g {
		if in[l] == 0 {
			out = append(out, "+ "+trunc(l, 300))
		} else {
			in[l]--
		}
	}
	for l, k := range in {
		for ; k > 0; k-- {
			out = append(out, "- "+trunc(l, 300))
		}
	}
	if len(out) > 8 {
		out = out[:8]
	}
	return strings.Join(out, "\n")
}

func trunc(s string, n int) string {
	if len(s) > n {
		return s[:n] + "…"
	}
	return s
}

func c18Scratch() string {
	for _, d := range []string{"/dev/shm", os.TempDir()} {
		if st, err := os.Stat(d); err == nil && st.IsDir() {
			return d
		}
	}
	return "."
}

// ---- crash points ----

// TestC18Child is the body of the traced child process.
func TestC18Child(t *testing.T) {
	specPath := os.Getenv("VERIF_C18_SPEC")
	if specPath == "" {
		t.Skip("child only")
	}
	data, err := os.ReadFile(specPath)
	if err != nil {
		t.Fatal(err)
	}
	var job struct {
		Path string
		Edit c18Spec
		// FsizeLimit > 0: writes to any file fail (EFBIG) once the file would grow
		// beyond this many bytes - a write error at a chosen byte offset.
		FsizeLimit int64
	}
	if err := json.Unmarshal(data, &job); err != nil {
		t.Fatal(err)
	}
	s, err := c18Open(job.Path)
	if err != nil {
		t.Fatal(err)
	}
	if err := c18Apply(s, job.Edit); err != nil {
		t.Fatal(err)
	}
	if job.FsizeLimit > 0 {
		signal.Ignore(syscall.SIGXFSZ)
		lim := syscall.Rlimit{Cur: uint64(job.FsizeLimit), Max: uint64(job.FsizeLimit)}
		if err := syscall.Setrlimit(syscall.RLIMIT_FSIZE, &lim); err != nil {
			t.Fatal(err)
		}
		err := s.Stop()
		fmt.Printf("C18-STOP-RESULT err=%v\n", err)
		return
	}
	if err := s.Stop(); err != nil {
		t.Fatal(err)
	}
}

type c18Op struct {
	kind string // open, write, rename, unlink, truncate, link
	path string
	dst  string
	data []byte
	off  int64 // write offset
	n    int64 // truncate length
	trnc bool  // open with O_TRUNC
	crt  bool
}

var (
	c18LineRe   = regexp.MustCompile(`^(\d+)\s+(.*)$`)
	c18ResumeRe = regexp.MustCompile(`^<\.\.\. (\w+) resumed>(.*)$`)
	c18RetRe    = regexp.MustCompile(`\)\s+= `)
)

// c18ParseTrace turns strace output into file operations inside dir.
func c18ParseTrace(trace string, dir string) ([]c18Op, error) {
	pending := map[string]string{}
	offsets := map[string]int64{} // pid:fd -> offset
	var ops []c18Op
	sc := bufio.NewScanner(strings.NewReader(trace))
	sc.Buffer(make([]byte, 1<<20), 64<<20)
	for sc.Scan() {
		line := sc.Text()
		mm := c18LineRe.FindStringSubmatch(line)
		if mm == nil {
			continue
		}
		pid, rest := mm[1], mm[2]
		if strings.HasSuffix(rest, "<unfinished ...>") {
			pending[pid] = strings.TrimSuffix(rest, "<unfinished ...>")
			continue
		}
		if r := c18ResumeRe.FindStringSubmatch(rest); r != nil {
			rest = pending[pid] + r[2]
			delete(pending, pid)
		}
		if strings.HasPrefix(rest, "+++") || strings.HasPrefix(rest, "---") {
			continue
		}
		par := strings.Index(rest, "(")
		if par < 0 {
			continue
		}
		name := rest[:par]
		// ") = ret", with padding after the parenthesis in resumed calls
		locs := c18RetRe.FindAllStringIndex(rest, -1)
		if locs == nil {
			continue
		}
		eq, after := locs[len(locs)-1][0], locs[len(locs)-1][1]
		args, ret := rest[par+1:eq], strings.TrimSpace(rest[after:])
		if strings.HasPrefix(ret, "-1") {
			continue
		}
		switch name {
		case "openat", "open", "creat":
			path := c18RetPath(ret)
			if path == "" || !strings.HasPrefix(path, dir+"/") {
				continue
			}
			fd := strings.SplitN(ret, "<", 2)[0]
			offsets[fd] = 0
			write := strings.Contains(args, "O_WRONLY") || strings.Contains(args, "O_RDWR") || name == "creat"
			if !write {
				continue
			}
			ops = append(ops, c18Op{kind: "open", path: path, trnc: strings.Contains(args, "O_TRUNC") || name == "creat", crt: strings.Contains(args, "O_CREAT") || name == "creat"})
			if strings.Contains(args, "O_APPEND") {
				offsets[fd] = -1
			}
		case "write", "pwrite64":
			fdEnd := strings.Index(args, "<")
			closeAngle := strings.Index(args, ">")
			if fdEnd < 0 || closeAngle < 0 {
				continue
			}
			fd, path := args[:fdEnd], c18Path(args[fdEnd+1:closeAngle])
			if !strings.HasPrefix(path, dir+"/") {
				continue
			}
			q1 := strings.Index(args, "\"")
			q2 := strings.LastIndex(args, "\"")
			if q1 < 0 || q2 <= q1 {
				continue
			}
			data, err := c18Unescape(args[q1+1 : q2])
			if err != nil {
				return nil, err
			}
			n, _ := strconv.Atoi(strings.Fields(ret)[0])
			if n < len(data) {
				data = data[:n]
			}
			if n > len(data) {
				return nil, fmt.Errorf("trace truncated a write of %d bytes to %d", n, len(data))
			}
			off := offsets[fd]
			if name == "pwrite64" {
				parts := strings.Split(args, ",")
				o, _ := strconv.ParseInt(strings.TrimSpace(parts[len(parts)-1]), 10, 64)
				off = o
			} else if off >= 0 {
				offsets[fd] = off + int64(n)
			}
			ops = append(ops, c18Op{kind: "write", path: path, data: data, off: off})
		case "rename", "renameat", "renameat2", "link", "linkat":
			var paths []string
			for _, q := range regexp.MustCompile(`"((?:[^"\\]|\\.)*)"`).FindAllStringSubmatch(args, -1) {
				p, _ := c18Unescape(q[1])
				paths = append(paths, string(p))
			}
			if len(paths) != 2 {
				continue
			}
			if !strings.HasPrefix(paths[0], dir+"/") && !strings.HasPrefix(paths[1], dir+"/") {
				continue
			}
			kind := "rename"
			if strings.HasPrefix(name, "link") {
				kind = "link"
			}
			ops = append(ops, c18Op{kind: kind, path: paths[0], dst: paths[1]})
		case "unlink", "unlinkat":
			q := regexp.MustCompile(`"((?:[^"\\]|\\.)*)"`).FindStringSubmatch(args)
			if q == nil {
				continue
			}
			p, _ := c18Unescape(q[1])
			if strings.HasPrefix(string(p), dir+"/") {
				ops = append(ops, c18Op{kind: "unlink", path: string(p)})
			}
		case "ftruncate":
			fdEnd := strings.Index(args, "<")
			closeAngle := strings.Index(args, ">")
			if fdEnd < 0 || closeAngle < 0 {
				continue
			}
			path := c18Path(args[fdEnd+1 : closeAngle])
			if !strings.HasPrefix(path, dir+"/") {
				continue
			}
			parts := strings.Split(args, ",")
			n, _ := strconv.ParseInt(strings.TrimSpace(parts[len(parts)-1]), 10, 64)
			ops = append(ops, c18Op{kind: "truncate", path: path, n: n})
		}
	}
	return ops, nil
}

func c18RetPath(ret string) string {
	a, b := strings.Index(ret, "<"), strings.LastIndex(ret, ">")
	if a < 0 || b < a {
		return ""
	}
	return c18Path(ret[a+1 : b])
}

// c18Path unescapes a path printed by strace (-xx escapes fd paths too).
func c18Path(s string) string {
	p, err := c18Unescape(s)
	if err != nil {
		return s
	}
	return string(p)
}

func c18Unescape(s string) ([]byte, error) {
	out := make([]byte, 0, len(s)/4+8)
	for i := 0; i < len(s); i++ {
		if s[i] != '\\' {
			out = append(out, s[i])
			continue
		}
		i++
		if i >= len(s) {
			return nil, fmt.Errorf("dangling escape")
		}
		switch s[i] {
		case 'x':
			if i+2 >= len(s) {
				return nil, fmt.Errorf("short hex escape")
			}
			v, err := strconv.ParseUint(s[i+1:i+3], 16, 8)
			if err != nil {
				return nil, err
			}
			out = append(out, byte(v))
			i += 2
		case 'n':
			out = append(out, '\n')
		case 't':
			out = append(out, '\t')
		case 'r':
			out = append(out, '\r')
		case 'v':
			out = append(out, '\v')
		case 'f':
			out = append(out, '\f')
		case '\\', '"':
			out = append(out, s[i])
		default:
			if s[i] >= '0' && s[i] <= '7' {
				j := i
				for j < len(s) && j < i+3 && s[j] >= '0' && s[j] <= '7' {
					j++
				}
				v, _ := strconv.ParseUint(s[i:j], 8, 8)
				out = append(out, byte(v))
				i = j - 1
			} else {
				return nil, fmt.Errorf("unknown escape \\%c", s[i])
			}
		}
	}
	return out, nil
}

// c18FS is a tiny model of the state directory.
type c18FS map[string][]byte

func (fs c18FS) clone() c18FS {
	out := c18FS{}
	for k, v := range fs {
		out[k] = v
	}
	return out
}

// apply performs op; for writes only the first upTo bytes (upTo<0: all).
func (fs c18FS) apply(op c18Op, upTo int) {
	switch op.kind {
	case "open":
		_, exists := fs[op.path]
		if !exists && op.crt {
			fs[op.path] = []byte{}
		}
		if exists && op.trnc {
			fs[op.path] = []byte{}
		}
	case "write":
		data := op.data
		if upTo >= 0 && upTo < len(data) {
			data = data[:upTo]
		}
		cur := fs[op.path]
		off := op.off
		if off < 0 {
			off = int64(len(cur))
		}
		nb := make([]byte, max(int(off)+len(data), len(cur)))
		copy(nb, cur)
		copy(nb[off:], data)
		fs[op.path] = nb
	case "rename":
		if v, ok := fs[op.path]; ok {
			fs[op.dst] = v
			delete(fs, op.path)
		}
	case "link":
		if v, ok := fs[op.path]; ok {
			fs[op.dst] = v
		}
	case "unlink":
		delete(fs, op.path)
	case "truncate":
		cur := fs[op.path]
		if int(op.n) <= len(cur) {
			fs[op.path] = cur[:op.n]
		} else {
			fs[op.path] = append(append([]byte(nil), cur...), make([]byte, int(op.n)-len(cur))...)
		}
	}
}

func c18Materialise(fs c18FS, traceDir, into string) error {
	for p, data := range fs {
		rel := strings.TrimPrefix(p, traceDir+"/")
		if err := os.WriteFile(filepath.Join(into, rel), data, 0o644); err != nil {
			return err
		}
	}
	return nil
}

func TestC18Crash(t *testing.T) {
	if _, err := exec.LookPath("strace"); err != nil {
		t.Skip("strace not available")
	}
	core.Run(t, core.Opts{ID: "C18", Quick: 20, Thorough: 800}, func(c *core.Case) {
		work, err := os.MkdirTemp(c18Scratch(), "c18crash-")
		if err != nil {
			c.Fatalf("tempdir: %v", err)
		}
		defer os.RemoveAll(work)
		stateDir := filepath.Join(work, "state")
		_ = os.Mkdir(stateDir, 0o755)
		path := filepath.Join(stateDir, "state.json")
		big := c.Chance("big", 1, 8)
		maxR := 4
		if big {
			maxR = 150
		}
		// Old state on disk.
		oldSpec := c18GenSpec(c, maxR, maxR)
		hasOld := c.Chance("has.old", 3, 4)
		via := c.Chance("start.via-instance", 1, 2)
		if via {
			c.Class("restart-through-the-instance-constructor")
		}
		oldCanon := ""
		if hasOld {
			s, err := c18Open(path)
			if err != nil {
				c.Fatalf("storage: %v", err)
			}
			if err := c18Apply(s, oldSpec); err != nil {
				c.Fatalf("apply: %v", err)
			}
			oldCanon, _ = c18Canon(s)
			if err := s.Stop(); err != nil {
				c.Fatalf("stop: %v", err)
			}
		}
		// Edits.
		edit := c18GenSpec(c, maxR, maxR)
		for _, r := range oldSpec.Routers {
			if c.Chance("del.router", 1, 4) {
				edit.DelRouters = append(edit.DelRouters, r.IP)
			}
		}
		for _, mp := range oldSpec.Mappings {
			if c.Chance("del.mapping", 1, 4) {
				edit.DelMappings = append(edit.DelMappings, mp.Domain)
			}
		}
		job, _ := json.Marshal(map[string]any{"Path": path, "Edit": edit})
		specPath := filepath.Join(work, "job.json")
		if err := os.WriteFile(specPath, job, 0o644); err != nil {
			c.Fatalf("job: %v", err)
		}
		// The initial directory content (before the child runs).
		initial := c18FS{}
		if hasOld {
			data, _ := os.ReadFile(path)
			initial[path] = data
		}
		tracePath := filepath.Join(work, "trace.txt")
		cmd := exec.Command("strace", "-f", "-y", "-xx", "-s", "16000000", "-o", tracePath,
			"-e", "trace=open,openat,creat,write,pwrite64,rename,renameat,renameat2,unlink,unlinkat,link,linkat,ftruncate",
			os.Args[0], "-test.run", "^TestC18Child$", "-test.count", "1")
		cmd.Env = append(os.Environ(), "VERIF_C18_SPEC="+specPath, "VERIF_STATS_OUT=", "VERIF_REPLAY=")
		if out, err := cmd.CombinedOutput(); err != nil {
			c.Fatalf("traced child failed: %v\n%s", err, trunc(string(out), 2000))
		}
		traceData, err := os.ReadFile(tracePath)
		if err != nil {
			c.Fatalf("trace: %v", err)
		}
		ops, err := c18ParseTrace(string(traceData), stateDir)
		if err != nil {
			c.Fatalf("trace parse: %v", err)
		}
		// The new state, as the child left it.
		finalS, err := c18Open(path)
		if err != nil {
			c.Fatalf("state written by a complete Stop cannot be loaded: %v", err)
		}
		newCanon, _ := c18Canon(finalS)
		// The model must reproduce the final directory (sanity of the trace parser).
		model := initial.clone()
		for _, op := range ops {
			model.apply(op, -1)
		}
		if disk, _ := os.ReadFile(path); !bytes.Equal(model[path], disk) {
			// The trace could not be turned into the file operations that really
			// happened (strace output garbled under load): nothing can be enumerated.
			var short []string
			for _, l := range strings.Split(string(traceData), "\n") {
				if len(l) > 300 {
					l = l[:150] + " ... " + l[len(l)-100:]
				}
				short = append(short, l)
			}
			if len(short) > 40 {
				short = short[len(short)-40:]
			}
			c.Note("trace does not reproduce the state file (%d ops, model %d bytes, disk %d bytes); tail of the trace:\n%s", len(ops), len(model[path]), len(disk), strings.Join(short, "\n"))
			_ = os.WriteFile(filepath.Join(c18Scratch(), fmt.Sprintf("c18-bad-trace-%d.txt", os.Getpid())), []byte(strings.Join(short, "\n")), 0o644)
			c.Class("inconclusive-trace-not-parsed")
			return
		}

		// Enumerate crash prefixes.
		var opNames []string
		for _, op := range ops {
			opNames = append(opNames, fmt.Sprintf("%s(%s,%d)", op.kind, filepath.Base(op.path), len(op.data)))
		}
		c.Note("old=%v (%d routers) edits: +%d routers +%d mappings; traced ops: %v", hasOld, len(oldSpec.Routers), len(edit.Routers), len(edit.Mappings), opNames)
		checkDir := filepath.Join(work, "check")
		states, inside, followed := 0, 0, 0
		// Crash states after which a second, clean run is played (by running index).
		every := c.Uniform("followup.every", 9, 40)
		phase := c.Uniform("followup.phase", 0, 8)
		check := func(fs c18FS, where string) {
			_ = os.RemoveAll(checkDir)
			_ = os.Mkdir(checkDir, 0o755)
			if err := c18Materialise(fs, stateDir, checkDir); err != nil {
				c.Fatalf("materialise: %v", err)
			}
			// (the constructor of the whole instance is slow: every eighth state)
			s, err := c18Start(filepath.Join(checkDir, "state.json"), via && states%8 == 0)
			states++
			if err != nil {
				c.Fatalf("crash %s: the next start cannot load the state (%v); state file has %d bytes (old %d, new %d)", where, err, len(fs[path]), len(initial[path]), len(model[path]))
			}
			got, _ := c18Canon(s)
			if got != oldCanon && got != newCanon {
				c.Fatalf("crash %s: the loaded state is neither the complete old nor the complete new state", where)
			}
			if states%every == phase {
				// The run after the crash: it works on what it loaded, ends up with
				// less to store than the interrupted write had put down, and shuts
				// down cleanly. The run after that must find exactly that state.
				var del c18Spec
				for i, r := range append(append([]c18Router(nil), oldSpec.Routers...), edit.Routers...) {
					if i%5 != 0 {
						del.DelRouters = append(del.DelRouters, r.IP)
					}
				}
				for _, mp := range append(append([]c18Mapping(nil), oldSpec.Mappings...), edit.Mappings...) {
					del.DelMappings = append(del.DelMappings, mp.Domain)
				}
				if err := c18Apply(s, del); err != nil {
					c.Fatalf("apply: %v", err)
				}
				want, _ := c18Canon(s)
				if err := s.Stop(); err != nil {
					c.Fatalf("crash %s, next run: clean shutdown failed: %v", where, err)
				}
				s2, err := c18Start(filepath.Join(checkDir, "state.json"), via)
				if err != nil {
					c.Fatalf("crash %s, then a run that shut down cleanly with a smaller state: the start after that cannot load the state (%v)", where, err)
				}
				if got2, _ := c18Canon(s2); got2 != want {
					c.Fatalf("crash %s, then a run that shut down cleanly: the start after that loads a different state", where)
				}
				followed++
			}
		}
		cur := initial.clone()
		check(cur, "before the first operation")
		for i, op := range ops {
			if op.kind == "write" && len(op.data) > 1 {
				// Offsets inside the write.
				offs := map[int]bool{}
				n := len(op.data)
				if n <= 8192 {
					for k := 1; k < n; k++ {
						offs[k] = true
					}
				} else {
					for k := 1; k <= 64 && k < n; k++ {
						offs[k], offs[n-k] = true, true
					}
					for b := 4096; b < n; b += 4096 {
						for d := -3; d <= 3; d++ {
							if b+d > 0 && b+d < n {
								offs[b+d] = true
							}
						}
					}
					for k := 0; k < 200; k++ {
						offs[c.Uniform("crash.off", 1, n-1)] = true
					}
				}
				keys := make([]int, 0, len(offs))
				for k := range offs {
					keys = append(keys, k)
				}
				sort.Ints(keys)
				for _, k := range keys {
					fs := cur.clone()
					fs.apply(op, k)
					check(fs, fmt.Sprintf("inside operation %d (%s of %d bytes to %s) at byte %d", i, op.kind, n, filepath.Base(op.path), k))
					inside++
				}
			}
			cur.apply(op, -1)
			check(cur, fmt.Sprintf("after operation %d (%s %s)", i, op.kind, filepath.Base(op.path)))
		}
		nt := inside > 0 && oldCanon != newCanon
		c.Eval(fmt.Sprintf("crash|%x|%x|%d", fnvBytes([]byte(oldCanon)), fnvBytes([]byte(newCanon)), states), nt, func() any {
			return map[string]any{"kind": "crash", "file_operations": opNames, "crash_states_checked": states, "inside_writes": inside, "crash_states_followed_by_a_clean_run": followed, "old_bytes": len(initial[path]), "new_bytes": len(model[path])}
		})
		core.AddCount("C18", "crash_states", int64(states))
	})
}

// TestC18WriteFault: the shutdown write fails with an error at a chosen byte
// offset (file size limit in the child, EFBIG) instead of the process dying
// there. Whatever Stop does about the error, the next start finds the complete
// old or the complete new state.
func TestC18WriteFault(t *testing.T) {
	core.Run(t, core.Opts{ID: "C18", Quick: 12, Thorough: 400}, func(c *core.Case) {
		work, err := os.MkdirTemp(c18Scratch(), "c18fault-")
		if err != nil {
			c.Fatalf("tempdir: %v", err)
		}
		defer os.RemoveAll(work)
		path := filepath.Join(work, "state.json")
		maxR := 4
		if c.Chance("big", 1, 6) {
			maxR = 60
		}
		oldSpec := c18GenSpec(c, maxR, maxR)
		hasOld := c.Chance("has.old", 5, 6)
		oldCanon := ""
		if hasOld {
			s, err := c18Open(path)
			if err != nil {
				c.Fatalf("storage: %v", err)
			}
			if err := c18Apply(s, oldSpec); err != nil {
				c.Fatalf("apply: %v", err)
			}
			oldCanon = c18Loose(c18CanonOf(s))
			if err := s.Stop(); err != nil {
				c.Fatalf("stop: %v", err)
			}
		}
		oldData, _ := os.ReadFile(path)
		edit := c18GenSpec(c, maxR, maxR)
		// The complete new state, computed on a copy.
		cpy := filepath.Join(work, "copy.json")
		if hasOld {
			_ = os.WriteFile(cpy, oldData, 0o644)
		}
		sc, err := c18Open(cpy)
		if err != nil {
			c.Fatalf("storage: %v", err)
		}
		if err := c18Apply(sc, edit); err != nil {
			c.Fatalf("apply: %v", err)
		}
		newCanon := c18Loose(c18CanonOf(sc))
		if err := sc.Stop(); err != nil {
			c.Fatalf("stop: %v", err)
		}
		newData, _ := os.ReadFile(cpy)
		_ = os.Remove(cpy)

		faults := c.Int("faults", 1, 4)
		var tried []int64
		for k := 0; k < faults; k++ {
			limit := int64(c.Uniform("limit", 1, max(len(newData)-1, 1)))
			if c.Chance("limit.edge", 1, 3) {
				limit = int64(core.OneOf(c, "limit.e", 1, 2, len(newData)-1, len(newData)/2, 4096, 4095))
				limit = max(min(limit, int64(len(newData)-1)), 1)
			}
			tried = append(tried, limit)
			// restore the old state, remove leftovers
			entries, _ := os.ReadDir(work)
			for _, e := range entries {
				_ = os.Remove(filepath.Join(work, e.Name()))
			}
			if hasOld {
				_ = os.WriteFile(path, oldData, 0o644)
			}
			job, _ := json.Marshal(map[string]any{"Path": path, "Edit": edit, "FsizeLimit": limit})
			specPath := filepath.Join(work, "job.json")
			if err := os.WriteFile(specPath, job, 0o644); err != nil {
				c.Fatalf("job: %v", err)
			}
			cmd := exec.Command(os.Args[0], "-test.run", "^TestC18Child$", "-test.count", "1", "-test.v")
			cmd.Env = append(os.Environ(), "VERIF_C18_SPEC="+specPath, "VERIF_STATS_OUT=", "VERIF_REPLAY=")
			out, err := cmd.CombinedOutput()
			if err != nil {
				c.Fatalf("child with a write fault at byte %d died (%v): %s", limit, err, trunc(string(out), 1500))
			}
			stopRes := ""
			if i := strings.Index(string(out), "C18-STOP-RESULT"); i >= 0 {
				stopRes = strings.SplitN(string(out)[i:], "\n", 2)[0]
			}
			s, err := c18Open(path)
			if err != nil {
				c.Fatalf("write error at byte %d of %d during shutdown (%s): the next start cannot load the state: %v", limit, len(newData), stopRes, err)
			}
			got := c18Loose(c18CanonOf(s))
			if got != oldCanon && got != newCanon {
				c.Fatalf("write error at byte %d of %d during shutdown (%s): the next start finds neither the complete old nor the complete new state (old state existed: %v); against the new state: %s", limit, len(newData), stopRes, hasOld, c18Diff(newCanon, got))
			}
		}
		c.Eval(fmt.Sprintf("fault|%x|%x|%v", fnvBytes([]byte(oldCanon)), fnvBytes([]byte(newCanon)), tried), hasOld && oldCanon != newCanon, func() any {
			return map[string]any{"kind": "write-fault", "fault_offsets": tried, "old_bytes": len(oldData), "new_bytes": len(newData)}
		})
	})
}

var c18MappingCreated = regexp.MustCompile(`(?m)^(mapping .*) created=-?\d+$`)

// c18Loose drops the creation time of mappings (SaveMapping stamps them with
// the wall clock, so two runs that apply the same edits differ there).
// Routers saved without an update time get the wall clock, too.
func c18Loose(canon string) string {
	canon = c18RouterUpdated.ReplaceAllString(c18MappingCreated.ReplaceAllString(canon, "$1"), " updated=*")
	// A lookup of a router (the state manager looks a router up before it adds
	// public info) stamps its last-use time with the wall clock as well. The
	// exact round trip of that field is TestC18RoundTrip's matter.
	return c18RouterUsed.ReplaceAllString(canon, " used=*")
}

var c18RouterUsed = regexp.MustCompile(` used=(-?\d+/(true|false)|nil)`)

var c18RouterUpdated = regexp.MustCompile(` updated=-?\d+/(true|false)`)

func c18CanonOf(s *storage.JSONFileStorage) string {
	out, _ := c18Canon(s)
	return out
}

// TestC18ConcurrentUpdates: two handlers of the router update the stored record
// of one router at the same moment (an announcement brings its public info while
// a disconnect ping marks it offline, or two announcements follow each other
// closely); one of them is held at a generated storage call. Whatever the
// order, public info that was stored is in the state afterwards - in memory and
// after Stop and a restart. (The offline flag has no fixed outcome: storing
// public info clears it.)
func TestC18ConcurrentUpdates(t *testing.T) {
	core.Run(t, core.Opts{ID: "C18", Quick: 150, Thorough: 5000}, func(c *core.Case) {
		dir, err := os.MkdirTemp(c18Scratch(), "c18cu-")
		if err != nil {
			c.Fatalf("tempdir: %v", err)
		}
		defer os.RemoveAll(dir)
		path := filepath.Join(dir, "state.json")
		s, err := c18Open(path)
		if err != nil {
			c.Fatalf("new storage: %v", err)
		}
		gate := &vnet.Gate{}
		party := vnet.NewParty(ids.Get(1))
		st := state.New(party, &vnet.GateStorage{Storage: s, G: gate})
		pool := ids.Routable()
		x := pool[c.Pick("router", len(pool))]
		pa := x.Addr.PublicAddress
		if err := st.AddRouter(&pa); err != nil {
			c.Fatalf("AddRouter: %v", err)
		}
		mkInfo := func(label string) *m.RouterInfo {
			return &m.RouterInfo{Version: c18Str(c, label+".v"), Listeners: []string{c18Str(c, label+".l")}}
		}
		infoA, infoB := mkInfo("infoA"), mkInfo("infoB")
		if c.Bool("has-info-before") {
			if err := st.AddPublicRouterInfo(x.Addr.IP, mkInfo("info0")); err != nil {
				c.Fatalf("AddPublicRouterInfo: %v", err)
			}
		}
		type op struct {
			name string
			run  func() error
		}
		addA := op{"public info A stored", func() error { return st.AddPublicRouterInfo(x.Addr.IP, infoA) }}
		addB := op{"public info B stored", func() error { return st.AddPublicRouterInfo(x.Addr.IP, infoB) }}
		off := op{"marked offline", func() error { return st.MarkRouterOffline(x.Addr.IP) }}
		var first, second op
		wantOneOf := []*m.RouterInfo{infoA}
		switch c.Pick("ops", 3) {
		case 0:
			first, second = off, addA // the offline mark is held, the info is stored meanwhile
		case 1:
			first, second = addA, off
		default:
			first, second = addA, addB
			wantOneOf = []*m.RouterInfo{infoA, infoB}
		}
		point := core.OneOf(c, "hold.at", "storage.SaveRouter", "storage.SaveRouter", "storage.GetRouter")
		gate.ArmAt(point, 0)
		errs := make(chan error, 2)
		go func() { errs <- first.run() }()
		held := false
		for i := 0; i < 100 && !held; i++ {
			held = gate.WaitReached(3 * time.Millisecond)
		}
		go func() { errs <- second.run() }()
		var got []error
		select {
		case e := <-errs: // the second one finished (or blocks on a lock the held call keeps)
			got = append(got, e)
		case <-time.After(100 * time.Millisecond):
		}
		gate.Release()
		for len(got) < 2 {
			select {
			case e := <-errs:
				got = append(got, e)
			case <-time.After(20 * time.Second):
				c.Fatalf("two updates of one router's record (%s held at %s, then %s) did not finish", first.name, point, second.name)
			}
		}
		for _, e := range got {
			if e != nil {
				c.Fatalf("update of a known router's record failed: %v", e)
			}
		}
		matches := func(r *storage.StoredRouter) bool {
			if r == nil || r.PublicInfo == nil {
				return false
			}
			for _, w := range wantOneOf {
				if r.PublicInfo.Version == w.Version && fmt.Sprint(r.PublicInfo.Listeners) == fmt.Sprint(w.Listeners) {
					return true
				}
			}
			return false
		}
		now, err := s.GetRouter(x.Addr.IP)
		if err != nil || !matches(now) {
			c.Fatalf("%s (held at %s) while %s: afterwards the router's record does not hold the public info that was stored (record: %+v, err %v)", first.name, point, second.name, now, err)
		}
		if err := s.Stop(); err != nil {
			c.Fatalf("Stop failed: %v", err)
		}
		re, err := c18Open(path)
		if err != nil {
			c.Fatalf("restart failed: %v", err)
		}
		back, err := re.GetRouter(x.Addr.IP)
		if err != nil || !matches(back) {
			c.Fatalf("%s (held at %s) while %s: after Stop and a restart the router's record does not hold the public info that was stored (record: %+v, err %v)", first.name, point, second.name, back, err)
		}
		_ = re.Stop()
		if held {
			c.Class("concurrent-updates/" + first.name + "-held-at-" + point)
		} else {
			c.Class("concurrent-updates/not-held")
		}
		c.Eval(fmt.Sprintf("cu|%s|%s|%s|%v", first.name, second.name, point, held), held, nil)
	})
}
