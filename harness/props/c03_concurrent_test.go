package props

// C03, concurrent deliveries: the router handles frames with one worker per
// core, and flooded signed frames arrive in several copies over several links
// at about the same time. Copies of signed frames of one sender are handed to
// two or three workers at once while the receiver has no session object, no
// signing session or an established one for that sender. The interleaving is
// a generated value: the n-th call the state manager makes out of its package
// (instance accessors, storage lookups - the points where such code drops or
// keeps its locks) is held while the other workers run, then released.
// Oracle: every frame is accepted at most once over the whole history
// (concurrent phase plus a sequential re-delivery of everything), and in the
// sequential phase a frame is accepted iff its timestamp is newer than every
// accepted one.

import (
	"fmt"
	"runtime/debug"
	"sync"
	"testing"
	"time"

	"github.com/mycoria/mycoria/frame"

	"verif/core"
	"verif/ids"
	"verif/vnet"
)

func TestC03FirstContact(t *testing.T) {
	pool := ids.Routable()
	core.Run(t, core.Opts{ID: "C03", Quick: 150, Thorough: 6000}, func(c *core.Case) {
		ia := c.Pick("idA", len(pool))
		ib := c.Pick("idB", len(pool)-1)
		if ib >= ia {
			ib++
		}
		A, B := vnet.NewParty(pool[ia]), vnet.NewGatedParty(pool[ib])
		sAB := A.SessionWith(B)
		if err := B.St.AddRouter(&A.ID.Addr.PublicAddress); err != nil {
			c.Fatalf("add router: %v", err)
		}
		ab := frame.NewFrameBuilder()
		mt := core.OneOf(c, "type", frame.RouterPing, frame.RouterHopPing, frame.RouterHopPingDeprecated)
		nf := c.Int("frames", 1, 3)
		var wires [][]byte
		var stamps []time.Time
		for i := 0; i < nf; i++ {
			f, err := ab.NewFrameV1(A.ID.Addr.IP, B.ID.Addr.IP, mt, nil, []byte(fmt.Sprintf("signed-%d", i)), nil)
			if err != nil {
				c.Fatalf("new frame: %v", err)
			}
			if err := f.Seal(sAB); err != nil {
				c.Fatalf("seal: %v", err)
			}
			d, _ := f.FrameDataWithMargins(0, 0)
			wires = append(wires, append([]byte(nil), d...))
			stamps = append(stamps, f.SequenceTime())
			f.ReturnToPool()
		}
		// What the receiver already has for the sender.
		prior := c.Pick("receiver.state", 3)
		if prior == 1 { // a session object, no signing session yet
			_ = B.St.GetSession(A.ID.Addr.IP)
		}
		// (2: an established signing session that has accepted frame 0, below)
		var mu sync.Mutex
		accepted := make([]int, nf)
		var newest time.Time
		var panics []string
		deliver := func(i int) (err error) {
			// A worker of the router recovers a panic of its handler; here it is
			// kept for the verdict.
			defer func() {
				if r := recover(); r != nil {
					mu.Lock()
					panics = append(panics, fmt.Sprintf("%v\n%s", r, debug.Stack()))
					mu.Unlock()
					err = fmt.Errorf("panic: %v", r)
				}
			}()
			b := frame.NewFrameBuilder()
			ps := b.GetPooledSlice(len(wires[i]))
			copy(ps, wires[i])
			f, err := b.ParseFrame(ps[:len(wires[i])], ps, 0)
			if err != nil {
				return err
			}
			defer f.ReturnToPool()
			s := B.St.GetSession(A.ID.Addr.IP)
			if s == nil {
				return fmt.Errorf("no session")
			}
			if err := f.Unseal(s); err != nil {
				return err
			}
			mu.Lock()
			accepted[i]++
			if stamps[i].After(newest) {
				newest = stamps[i]
			}
			mu.Unlock()
			return nil
		}
		if prior == 2 {
			if err := deliver(0); err != nil {
				c.Fatalf("first delivery of frame 0 rejected: %v", err)
			}
		}

		// Concurrent phase.
		workers := c.Int("workers", 2, 3)
		which := make([]int, workers)
		for w := range which {
			which[w] = c.Pick("worker.frame", nf)
			if w > 0 && c.Chance("worker.same-frame", 2, 3) {
				which[w] = which[0]
			}
		}
		// Calls out of the state manager during one delivery: the router lookup
		// when there is no session object, the identity when there is no signing
		// session; one more to have runs in which nothing is held.
		B.Gate.Arm(c.Int("hold.call", 0, 2-prior))
		var wg sync.WaitGroup
		done := make([]chan struct{}, workers)
		start := func(w int) {
			done[w] = make(chan struct{})
			wg.Add(1)
			go func() {
				defer wg.Done()
				defer close(done[w])
				_ = deliver(which[w])
			}()
		}
		start(0)
		held := false
		for waited := 0; waited < 100 && !held; waited++ {
			held = B.Gate.WaitReached(3 * time.Millisecond)
			select {
			case <-done[0]:
				waited = 100 // finished without being held
			default:
			}
		}
		for w := 1; w < workers; w++ {
			start(w)
			select {
			case <-done[w]:
			case <-time.After(100 * time.Millisecond): // blocked behind the held worker: fine
			}
		}
		B.Gate.Release()
		fin := make(chan struct{})
		go func() { wg.Wait(); close(fin) }()
		select {
		case <-fin:
		case <-time.After(20 * time.Second):
			c.Class("inconclusive-workers-did-not-finish")
			return
		}
		c.Note("type=%d frames=%d receiver-state=%d workers deliver %v, held at %q", mt, nf, prior, which, B.Gate.Point)
		if len(panics) > 0 {
			c.Fatalf("a worker panicked while %d workers delivered signed frames %v at once (receiver state %d, held at %q): %s", workers, which, prior, B.Gate.Point, trunc(panics[0], 1500))
		}

		// Sequential phase: everything once more, in a generated order.
		for k, n := 0, c.Int("again", nf, 2*nf); k < n; k++ {
			i := c.Pick("again.frame", nf)
			mu.Lock()
			before, newer := accepted[i], stamps[i].After(newest)
			mu.Unlock()
			err := deliver(i)
			if err == nil && !newer {
				c.Fatalf("frame %d (timestamp not newer than the newest accepted one, accepted %d times before) was accepted in the sequential phase; workers delivered %v, held at %q", i, before, which, B.Gate.Point)
			}
			if err != nil && newer && before == 0 {
				c.Fatalf("frame %d is newer than everything accepted so far and was rejected: %v", i, err)
			}
		}
		for i, n := range accepted {
			if n > 1 {
				c.Fatalf("signed frame %d was accepted %d times (receiver state %d, workers delivered %v concurrently, one of them held at %q)", i, n, prior, which, B.Gate.Point)
			}
		}
		dup := false
		for w := 1; w < workers; w++ {
			dup = dup || which[w] == which[0]
		}
		if held {
			c.Class("worker-held-at/" + B.Gate.Point)
		}
		c.Eval(fmt.Sprintf("first-contact|%d|%d|%v|%s", prior, workers, dup, B.Gate.Point), held && dup, func() any {
			return map[string]any{"level": "concurrent deliveries of signed frames", "receiver_state": []string{"no session object", "session without signing state", "established"}[prior],
				"workers_deliver_frames": which, "held_at": B.Gate.Point, "accepted": accepted}
		})
	})
}
