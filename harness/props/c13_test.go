package props

// C13 — No input from the network can panic or stall a router worker.
//
// Layer 1 (bytes -> parsers): ParseFrame on arbitrary and on structurally
// mutated bytes followed by every accessor, Clone, Reply, SetAppendixData and
// release; LinkFrame.Unseal on arbitrary bytes; a real link setup fed arbitrary
// bytes before and during the handshake; an established link fed garbage.
// Layer 2/3 (structured, authenticated, sequences): a long-lived real router V
// in a small mesh receives 50..300 frames per case from sources that hold real
// keys (a direct peer, a known remote router, never-seen identities): correctly
// sealed but malformed inside - arbitrary CBOR ping headers (wrong types, huge
// strings, unknown hash / key-type names, keys of 0..64 bytes, 255-byte
// headers), every ping type with truncated / oversized / wrong-typed bodies,
// hello with bad keys, announce chains of 0..120 records, disconnect with huge
// lists, traffic with short / mismatching / internal / denied inner packets,
// switch blocks of every length and content, frames not addressed to V, TTL
// 0/1, unknown message types.
// Oracle: no recovered worker panic (ErrWorkerPanic from the synchronous hooks,
// panic alerts of link workers), no panic of the parser functions; the double
// release guard turns a second ReturnToPool into such a panic.

import (
	"crypto/ed25519"
	"encoding/binary"
	"fmt"
	"net/netip"
	"strings"
	"sync"
	"testing"
	"time"

	"github.com/fxamacker/cbor/v2"

	"github.com/mycoria/mycoria/config"
	"github.com/mycoria/mycoria/frame"
	"github.com/mycoria/mycoria/m"
	"github.com/mycoria/mycoria/mgr"
	"github.com/mycoria/mycoria/peering"
	"github.com/mycoria/mycoria/router"
	"github.com/mycoria/mycoria/state"

	"verif/core"
	"verif/ids"
	"verif/vnet"
	"verif/wire"
)

var c13Opts = core.Opts{ID: "C13", Quick: 20000, Thorough: 1000000}

// c13Exercise calls everything a worker may call on a parsed frame.
func c13Exercise(b *frame.Builder, f frame.Frame, extra []byte) {
	_ = f.Version()
	_ = f.TTL()
	_ = f.RecvRate()
	_ = f.MessageType()
	_ = f.SequenceNum()
	_ = f.SequenceAck()
	_ = f.SequenceTime()
	_ = f.SrcIP()
	_ = f.DstIP()
	_ = f.SwitchBlock()
	_ = f.MessageData()
	_ = f.MessageDataWithAuth()
	_, _ = f.MessageDataWithOffset(10)
	_ = f.AuthData()
	_ = f.AppendixData()
	_, _ = f.FrameDataWithMargins(0, 0)
	_, _ = f.FrameDataWithMargins(12, 16)
	f.ReduceTTL(1)
	f.SetFlowFlag(frame.FlowControlFlagHoldFlow)
	cl := f.Clone()
	_ = cl.SetAppendixData(extra)
	_ = cl.AppendixData()
	cl.ReturnToPool()
	_ = f.SetAppendixData(extra)
	if sb := f.SwitchBlock(); len(sb) > 0 {
		_, _ = m.NextRotateSwitchBlock(sb, m.SwitchLabel(300))
	}
	_ = f.Reply(nil, []byte("reply"), nil)
	f.ReturnToPool()
}

func c13ValidFrame(c *core.Case) []byte {
	b := frame.NewFrameBuilder()
	mt := frame.MessageType(core.OneOf(c, "valid.type", 0, 1, 2, 3, 8, 16, 17, 200))
	sw := c.Bytes("valid.sw", core.OneOf(c, "valid.swlen", 0, 0, 1, 7, 255))
	pl := c.Bytes("valid.payload", core.OneOf(c, "valid.len", 1, 2, 40, 500, 560, 1500, 10000))
	apx := c.Bytes("valid.apx", core.OneOf(c, "valid.apxlen", 0, 0, 10, 600, 10000))
	f, err := b.NewFrameV1(netip.MustParseAddr("fd10::1"), netip.MustParseAddr("fd10::2"), mt, sw, pl, apx)
	if err != nil {
		return []byte{1}
	}
	d, _ := f.FrameDataWithMargins(0, 0)
	out := append([]byte(nil), d...)
	f.ReturnToPool()
	return out
}

func TestC13ParseFrame(t *testing.T) {
	core.Run(t, c13Opts, func(c *core.Case) {
		var data []byte
		kind := c.Weighted("kind", 3, 5, 2)
		switch kind {
		case 0:
			data = c.RawBytes("raw", 0, 120)
		case 1: // valid frame with corrupted length fields / truncation / extension
			data = c13ValidFrame(c)
			for k, n := 0, c.Int("mut.n", 1, 3); k < n; k++ {
				switch c.Pick("mut.kind", 6) {
				case 0:
					if len(data) > 48 {
						data[48] = byte(core.OneOf(c, "mut.swlen", 0, 1, 254, 255, 128))
					}
				case 1:
					sw := 0
					if len(data) > 48 {
						sw = int(data[48])
					}
					if len(data) > 49+sw+2 {
						binary.BigEndian.PutUint16(data[49+sw:], uint16(core.OneOf(c, "mut.msglen", 0, 1, 0xFFFF, 0x8000, 10001, 300)))
					}
				case 2:
					data = data[:c.Int("mut.trunc", 0, len(data))]
				case 3:
					data = append(data, c.Bytes("mut.ext", c.Int("mut.extn", 1, 300))...)
				case 4:
					if len(data) > 4 {
						data[4] = byte(c.Uniform("mut.type", 0, 255))
					}
				default:
					if len(data) > 0 {
						data[c.Uniform("mut.pos", 0, len(data)-1)] ^= 1 << c.Uniform("mut.bit", 0, 7)
					}
				}
			}
		default:
			data = c.Bytes("random", c.Int("random.len", 49, 700))
			data[0] = 1
		}
		b := frame.NewFrameBuilder()
		off := core.OneOf(c, "offset", 0, 2, 12)
		b.SetFrameMargins(12, 16)
		ps := b.GetPooledSlice(off + len(data) + 16)
		if ps == nil {
			return
		}
		copy(ps[off:], data)
		f, err := b.ParseFrame(ps[off:off+len(data)], ps, off)
		parsed := err == nil
		if parsed {
			c13Exercise(b, f, c.Bytes("extra", core.OneOf(c, "extra.len", 0, 1, 100, 700, 10000, 10001)))
		}
		key := fmt.Sprintf("%d|%v|%d", kind, parsed, len(data)/64)
		c.Eval(key, parsed, func() any {
			return map[string]any{"layer": "parse", "kind": kind, "bytes": len(data), "parsed": parsed}
		})
	})
}

func TestC13LinkFrameBytes(t *testing.T) {
	core.Run(t, core.Opts{ID: "C13", Quick: 5000, Thorough: 200000}, func(c *core.Case) {
		_, eb, err := vnet.EncPair()
		if err != nil {
			c.Fatalf("enc pair: %v", err)
		}
		data := c.RawBytes("raw", 0, 64)
		if c.Bool("longer") {
			data = c.Bytes("long", c.Int("long.n", 0, 400))
		}
		err = peering.LinkFrame(data).Unseal(eb)
		c.Eval(fmt.Sprintf("linkframe|%d", len(data)), len(data) >= 4, func() any {
			return map[string]any{"layer": "link-frame", "bytes": len(data), "err": fmt.Sprint(err)}
		})
	})
}

// TestC13LinkStream feeds arbitrary bytes to a real link setup and to an established link.
func TestC13LinkStream(t *testing.T) {
	pool := ids.Routable()
	core.Run(t, core.Opts{ID: "C13", Quick: 300, Thorough: 15000}, func(c *core.Case) {
		vn := vnet.New()
		a, _ := vn.AddNode("A", pool[c.Pick("idA", 20)], vnet.NodeOpts{})
		alerts := mgr.NewAlertMgr(a.Peer.Manager())
		phase := c.Weighted("phase", 3, 3, 4, 4)
		garbage := func(label string) []byte {
			switch c.Pick(label+".kind", 4) {
			case 0:
				return c.RawBytes(label+".raw", 1, 40)
			case 1: // declared length with too little / exact / tiny data
				l := core.OneOf(c, label+".len", 0, 1, 2, 3, 4, 5, 11, 12, 27, 28, 50, 600, 65535)
				body := c.Bytes(label+".body", c.Int(label+".n", 0, 80))
				out := []byte{byte(l >> 8), byte(l)}
				return append(out, body...)
			case 2: // well-formed length, garbage frame
				body := c.Bytes(label+".body", c.Int(label+".n", 2, 300))
				l := len(body) + 2
				return append([]byte{byte(l >> 8), byte(l)}, body...)
			default:
				v := c13ValidFrame(c)
				if len(v) > 60000 {
					v = v[:60000]
				}
				l := len(v) + 2
				return append([]byte{byte(l >> 8), byte(l)}, v...)
			}
		}
		switch phase {
		case 0: // before the handshake: garbage instead of a request
			e := wire.DialOne(a, c.Bool("dials"))
			_ = e.WaitParked(1)
			for k, n := 0, c.Int("chunks", 1, 4); k < n && !e.Done(); k++ {
				// Pipe writes are synchronous: when Write returns the router has
				// consumed the bytes; if it waits for more, the close below ends it.
				if e.Write(garbage("pre")) != nil {
					break
				}
			}
			e.Close()
			_ = e.WaitDone()
			if e.Panicked() {
				c.Fatalf("garbage before the handshake panicked the link setup: %v", e.Err)
			}
			if e.Link != nil {
				e.Link.Close(nil)
			}
		case 1: // during: a genuine first message, then garbage
			b, _ := vn.AddNode("B", pool[20+c.Pick("idB", 20)], vnet.NodeOpts{})
			conn := wire.Dial(a, b)
			_ = conn.A.WaitParked(1)
			_ = conn.B.WaitParked(1)
			genuine := c.Int("genuine", 1, 2)
			for k := 0; k < genuine && conn.B.Parked() > 0; k++ {
				prev := conn.A.Parked()
				_ = conn.A.Write(conn.B.Take(0))
				_ = conn.A.WaitReaction(prev)
				if conn.A.Parked() > 0 && k+1 < genuine {
					prevB := conn.B.Parked()
					_ = conn.B.Write(conn.A.Take(0))
					_ = conn.B.WaitReaction(prevB)
				}
			}
			for k, n := 0, c.Int("chunks", 1, 3); k < n && !conn.A.Done(); k++ {
				if conn.A.Write(garbage("mid")) != nil {
					break
				}
			}
			conn.A.Close()
			conn.B.Close()
			_ = conn.A.WaitDone()
			_ = conn.B.WaitDone()
			if conn.A.Panicked() || conn.B.Panicked() {
				c.Fatalf("garbage during the handshake panicked the link setup: %v / %v", conn.A.Err, conn.B.Err)
			}
			conn.Teardown()
		case 3: // several setups between the same two routers overlap (any directions, generated forwarding order, one of them possibly cut)
			b, _ := vn.AddNode("B", pool[20+c.Pick("idB", 20)], vnet.NodeOpts{})
			alertsB := mgr.NewAlertMgr(b.Peer.Manager())
			w := &c16World{c: c, nodes: []*vnet.Node{a, b}}
			var cs []*c16Conn
			for i, k := 0, 2+c.Weighted("setups", 2, 4, 2); i < k; i++ {
				x, y := 0, 1
				if c.Bool("reverse") {
					x, y = 1, 0
				}
				cc := &c16Conn{conn: wire.Dial(w.nodes[x], w.nodes[y]), a: x, b: y}
				cs = append(cs, cc)
				w.conns = append(w.conns, cc)
				time.Sleep(2 * time.Millisecond)
			}
			failAt := -1
			if c.Bool("cut") {
				failAt = c.Int("cut.at", 0, 5)
			}
			w.drive(cs, c.Chance("lockstep", 1, 2), failAt) // a panicking setup fails the case there
			for _, cc := range w.conns {
				cc.conn.Teardown()
			}
			if up := alertsB.Export(); len(up.Alerts) > 0 {
				c.Fatalf("a link worker panicked during overlapping setups: %s", up.Alerts[0].Message)
			}
			if w.inconcl {
				c.Class("inconclusive-time-budget")
			}
		default: // after: established link fed garbage
			b, _ := vn.AddNode("B", pool[20+c.Pick("idB", 20)], vnet.NodeOpts{})
			conn := wire.Dial(a, b)
			if err := conn.Honest(); err != nil || conn.A.Err != nil || conn.B.Err != nil {
				conn.Teardown()
				c.Class("inconclusive-time-budget")
				return
			}
			for k, n := 0, c.Int("chunks", 1, 8); k < n; k++ {
				if conn.A.Write(garbage("post")) != nil {
					break
				}
			}
			// Barrier: the reader is sequential; a closed link or consumed input bounds it.
			conn.A.Close()
			select {
			case <-peering.VerifLinkClosed(conn.A.Link):
			case <-time.After(wire.Budget):
			}
			conn.Teardown()
		}
		if up := alerts.Export(); len(up.Alerts) > 0 {
			c.Fatalf("a link worker panicked on garbage input: %s", up.Alerts[0].Message)
		}
		c.Eval(fmt.Sprintf("stream|%d", phase), true, func() any {
			return map[string]any{"layer": "link-stream", "phase": []string{"before", "during", "after", "overlapping-setups"}[phase]}
		})
	})
}

// ---- structured, authenticated input ----

type c13Source struct {
	name    string
	id      *ids.Identity
	party   *vnet.Party    // for remote sources
	sess    *state.Session // source's session for V (e2e keys)
	node    *vnet.Node     // for the direct peer
	lastTS  time.Time
	unknown bool
}

type c13World struct {
	c    *core.Case
	ms   *mesh
	V    *vnet.Node
	P    *vnet.Node
	link *vnet.VLink // V's link to P
	srcs []*c13Source
	b    *frame.Builder
}

func (w *c13World) ts(s *c13Source) time.Time {
	now := time.Now().Round(time.Millisecond)
	if !now.After(s.lastTS) {
		now = s.lastTS.Add(time.Millisecond)
	}
	s.lastTS = now
	return now
}

// seal authenticates frame f as coming from s (signature or e2e encryption).
func (w *c13World) seal(s *c13Source, f *frame.FrameV1, badAuth bool) {
	mt := f.MessageType()
	switch {
	case mt.IsEncrypted() && s.sess != nil && !badAuth:
		_ = f.Seal(s.sess)
	case mt.Class() == frame.MessageClassSigned:
		ttl := f.TTL()
		f.SetTTL(0)
		f.SetSequenceTime(w.ts(s))
		key := s.id.Addr.PrivateKey
		if badAuth {
			key = ids.Get(3).Addr.PrivateKey
		}
		_ = f.SignRaw(key)
		f.SetTTL(ttl)
	default:
		// unknown class or no keys: leave unauthenticated
	}
}

func c13HeaderCBOR(c *core.Case, s *c13Source, pingType string) []byte {
	hdr := map[string]any{}
	hdr["i"] = c.Uint64("hdr.id")
	hdr["t"] = pingType
	if c.Bool("hdr.followup") {
		hdr["f"] = true
	}
	hdr["c"] = c.Uniform("hdr.code", 0, 255)
	if c.Chance("hdr.code.small", 2, 3) {
		// the codes in use (repeats of one code from one source within its cooldown matter)
		hdr["c"] = c.Pick("hdr.code.s", 6)
	}
	hdr["h"] = string(s.id.Addr.Hash)
	hdr["a"] = string(s.id.Addr.Type)
	hdr["k"] = []byte(s.id.Addr.PublicKey)
	if s.id.Addr.Easing > 0 {
		hdr["e"] = s.id.Addr.Easing
	}
	// Malformations.
	for k, n := 0, c.Weighted("hdr.malform", 5, 3, 1); k < n; k++ {
		switch c.Pick("hdr.mal.kind", 10) {
		case 0:
			hdr["h"] = core.OneOf(c, "hdr.hash", "", "SHA9", "BLAKE3 ", "blake3", "SHA2-256", "SHA3-512", strings.Repeat("H", 100))
		case 1:
			hdr["a"] = core.OneOf(c, "hdr.keytype", "", "ed25519", "X25519", strings.Repeat("K", 100), strings.Repeat("K", 200))
		case 2:
			hdr["k"] = c.Bytes("hdr.key", core.OneOf(c, "hdr.keylen", 0, 1, 31, 33, 64))
		case 3:
			hdr["k"] = "not-bytes"
		case 4:
			hdr["t"] = core.OneOf(c, "hdr.type", "", "HELLO", "unknown.type", "a b", strings.Repeat("t", 60), "announce", "error", "pong", "disconnect", "hello")
		case 5:
			hdr["i"] = "string-id"
		case 6:
			hdr["e"] = core.OneOf[any](c, "hdr.easing", "x", -1, uint64(1)<<63)
		case 7:
			hdr["c"] = core.OneOf[any](c, "hdr.codeval", -1, 256, "c", 1.5)
		case 8:
			hdr["zz"] = []any{1, "two", map[string]any{"three": 3}}
		default:
			delete(hdr, core.OneOf(c, "hdr.del", "h", "a", "k", "t", "i"))
		}
	}
	out, err := cbor.Marshal(hdr)
	if err != nil {
		return []byte{0xa0}
	}
	return out
}

func c13PingBody(c *core.Case, w *c13World, pingType string) []byte {
	enc := func(v any) []byte {
		b, err := cbor.Marshal(v)
		if err != nil {
			return []byte{0xf6}
		}
		return b
	}
	if c.Chance("body.garbage", 1, 6) {
		return c.RawBytes("body.raw", 1, 40)
	}
	switch pingType {
	case "hello":
		return enc(map[string]any{
			"kx":  c.Bytes("hello.kx", core.OneOf(c, "hello.kxlen", 32, 32, 0, 1, 31, 33, 64)),
			"kxt": core.OneOf(c, "hello.kxt", "ECDH-X25519/BLAKE3", "ECDH-X25519/BLAKE3", "", "RSA", strings.Repeat("x", 300)),
			"mtu": core.OneOf[any](c, "hello.mtu", 1500, -1, 0, 1<<40, "mtu"),
			"err": core.OneOf(c, "hello.err", "", "no"),
		})
	case "pong":
		return enc(map[string]any{"msg": core.OneOf[any](c, "pong.msg", "ping", "pong", "", 5, strings.Repeat("p", 500))})
	case "error":
		switch c.Pick("error.kind", 4) {
		case 0:
			return enc(map[string]any{"u": core.OneOf[any](c, "err.u", w.P.IP().AsSlice(), []byte{1, 2, 3}, "addr", 7)})
		case 1:
			return enc(map[string]any{"d": w.V.IP().AsSlice(), "t": core.OneOf[any](c, "err.t", 6, 300, -1, "t"), "p": core.OneOf[any](c, "err.p", 80, 70000, -5)})
		case 2:
			return []byte{0xf6}
		default:
			return enc(strings.Repeat("e", c.Int("err.text", 0, 2000)))
		}
	case "disconnect":
		n := core.OneOf(c, "disc.n", 0, 1, 3, 50, 500)
		list := make([]any, n)
		for i := range list {
			a := w.P.IP().As16()
			a[15] = byte(i)
			a[14] = byte(i >> 8)
			list[i] = a[:]
		}
		if n > 0 && c.Bool("disc.badentry") {
			list[0] = "not-an-address"
		}
		return enc(map[string]any{"off": core.OneOf[any](c, "disc.off", false, true, 1, "x"), "d": list})
	default: // announce
		var listeners []any
		for i, n := 0, core.OneOf(c, "ann.listeners", 0, 1, 5, 100); i < n; i++ {
			listeners = append(listeners, fmt.Sprintf("tcp://host%d.example:%d", i, 47369+i))
		}
		info := map[string]any{"v": core.OneOf[any](c, "ann.version", "v1.0", 5, strings.Repeat("v", 300)), "l": listeners}
		if c.Bool("ann.badinfo") {
			info["srv"] = "not-a-list"
		}
		exp := core.OneOf[any](c, "ann.expires", time.Now().Add(10*time.Minute), time.Unix(0, 0), time.Now().Add(100*365*24*time.Hour), "later", -1)
		return enc(map[string]any{"i": info, "b": core.OneOf[any](c, "ann.label", 5, 65535, 70000, -1, "l"), "s": c.Bool("ann.stub"), "e": exp})
	}
}

// c13Chain builds an announce appendix of n records signed by signer over the
// given context; optionally with garbage in the middle.
func c13Chain(c *core.Case, signer *ids.Identity, n int, ctx []byte, garbage bool, victim netip.Addr) []byte {
	var inner []byte
	maximal := c.Chance("chain.maximal-labels", 1, 2)
	badAt := -1
	if n > 0 && c.Chance("chain.badsig", 1, 8) {
		badAt = c.Int("chain.badsig.at", 0, n-1)
	}
	for i := 0; i < n; i++ {
		att := router.AnnouncePingAttachment{
			Router:         signer.Addr.PublicAddress,
			Delay:          uint16(c.Uniform("chain.delay", 0, 65535)),
			ForwardLabel:   m.SwitchLabel(core.OneOf(c, "chain.f", 1, 127, 128, 16383, 65535, 0)),
			ReturnLabel:    m.SwitchLabel(core.OneOf(c, "chain.r", 1, 127, 128, 16383, 65535, 0)),
			NextAttachment: inner,
		}
		if maximal {
			att.ForwardLabel, att.ReturnLabel = 65535, 65535
		}
		if garbage && i == n/2 {
			att.NextAttachment = c.Bytes("chain.garbage", c.Int("chain.garbage.n", 1, 100))
		}
		raw, _ := cbor.Marshal(att)
		sig := ed25519.Sign(signer.Addr.PrivateKey, raw)
		if s, err := signer.Addr.SignWithContext(raw, ctx); err == nil && i != badAt {
			sig = s
		}
		inner = append(raw, sig...)
		if len(inner) > 50000 {
			break
		}
	}
	return inner
}

func (w *c13World) build(c *core.Case) (data []byte, desc string) {
	s := w.srcs[c.Pick("src", len(w.srcs))]
	cat := c.Weighted("cat", 6, 6, 4, 4, 3, 3, 3, 3, 3)
	dst := w.V.IP()
	var mt frame.MessageType
	var sw, msg, apx []byte
	ttl := uint8(core.OneOf(c, "ttl", 32, 32, 32, 1, 0, 2, 255))
	badAuth := c.Chance("badauth", 1, 12)
	switch cat {
	case 0: // ping with arbitrary header
		pt := core.OneOf(c, "ping.type", "hello", "pong", "error", "disconnect", "announce")
		hdr := c13HeaderCBOR(c, s, pt)
		hl := len(hdr)
		if c.Chance("hdrlen.lie", 1, 6) {
			hl = core.OneOf(c, "hdrlen", 0, 1, 255, len(hdr)-1, len(hdr)+1)
		}
		if hl > 255 {
			hl = 255
		}
		if hl < 0 {
			hl = 0
		}
		msg = append([]byte{byte(core.OneOf(c, "ping.version", 1, 1, 1, 0, 2)), byte(hl)}, hdr...)
		msg = append(msg, c13PingBody(c, w, pt)...)
		if base := pingHeaderFor(s.id, 78, pt, 0, false); c.Chance("hdrlen.past-the-end", 1, 8) && len(base) > 0 && base[0] >= 0xa0 && base[0] < 0xb7 && len(base) < 200 {
			// A well-formed header that fills the message to its last byte and ends
			// in a byte string (under a key nobody knows) declared a little longer
			// than what is left; the header length byte says the same. Whatever
			// follows the message in the frame would complete it.
			over := core.OneOf(c, "hdrlen.over", 1, 2, 2, 5, 16)
			have := c.Int("hdrlen.have", 0, 8)
			h := append([]byte(nil), base...)
			h[0]++
			h = append(h, 0x61, 'x', 0x58, byte(have+over))
			h = append(h, c.Bytes("hdrlen.bytes", have)...)
			msg = append([]byte{1, byte(len(h) + over)}, h...)
			pt += "/header-declared-past-the-end-of-the-message"
		}
		mt = core.OneOf(c, "ping.mt", frame.RouterPing, frame.RouterPing, frame.RouterCtrl, frame.RouterHopPing, frame.RouterHopPingDeprecated)
		if pt == "announce" {
			mt = core.OneOf(c, "ping.mt.ann", frame.RouterHopPingDeprecated, frame.RouterHopPing)
			dst = m.RouterAddress
			if c.Chance("ann.unicast", 1, 4) {
				dst = core.OneOf(c, "ann.dst", w.P.IP(), w.ms.nodes[len(w.ms.nodes)-1].IP(), netip.MustParseAddr("fd3f::1"), netip.MustParseAddr("fd80::1"))
			}
		}
		desc = "ping/" + pt
	case 1: // valid header, announce with a chain
		hdr := pingHeaderFor(s.id, 77, "announce", 0, false)
		msg = append([]byte{1, byte(len(hdr))}, hdr...)
		msg = append(msg, c13PingBody(c, w, "announce")...)
		mt, dst = frame.RouterHopPingDeprecated, m.RouterAddress
		if c.Chance("ann.unicast", 1, 4) {
			dst = core.OneOf(c, "ann.dst", w.P.IP(), w.ms.nodes[len(w.ms.nodes)-1].IP(), netip.MustParseAddr("fd3f::1"), netip.MustParseAddr("fd80::1"))
		}
		desc = "announce-chain"
	case 2: // traffic
		mt = core.OneOf(c, "traffic.mt", frame.NetworkTraffic, frame.NetworkTraffic, frame.SessionData, frame.SessionCtrl)
		isrc, idst := s.id.Addr.IP, w.V.IP()
		switch c.Pick("traffic.inner", 5) {
		case 1:
			isrc = w.P.IP()
		case 2:
			idst = w.P.IP()
		case 3:
			idst = netip.MustParseAddr("fd00::99")
		case 4:
			isrc = netip.MustParseAddr("2001:db8::1")
		}
		pkt := c07TunPacket(isrc, idst, uint8(core.OneOf(c, "traffic.proto", 6, 17, 58, 0, 255)), 1234, uint16(core.OneOf(c, "traffic.port", 53, 80, 0, 9999)))
		msg = pkt[:core.OneOf(c, "traffic.len", 60, 60, 44, 43, 40, 8, 1)]
		desc = "traffic"
	case 3: // switch blocks
		mt = frame.MessageType(core.OneOf(c, "sw.mt", 1, 8, 0, 2, 99))
		sw = c.Bytes("sw.block", core.OneOf(c, "sw.len", 1, 2, 3, 8, 64, 255))
		switch c.Pick("sw.shape", 4) {
		case 1:
			for i := range sw {
				sw[i] = 0
			}
		case 2:
			for i := range sw {
				sw[i] = 0xFF
			}
		case 3:
			if lbl := w.link.Other.Label; len(sw) >= 3 {
				n := binary.PutUvarint(sw, uint64(lbl))
				for i := n; i < len(sw); i++ {
					sw[i] = 0
				}
			}
		}
		msg = c.Bytes("sw.payload", c.Int("sw.plen", 1, 100))
		if c.Bool("sw.dst.other") {
			dst = w.ms.nodes[c.Pick("sw.dst", len(w.ms.nodes))].IP()
		}
		desc = "switch-block"
	case 4: // not addressed to V
		mt = frame.MessageType(core.OneOf(c, "fwd.mt", 1, 8, 2, 17))
		dst = core.OneOf(c, "fwd.dst", w.P.IP(), w.ms.nodes[len(w.ms.nodes)-1].IP(), netip.MustParseAddr("fd80::1"), netip.MustParseAddr("fd00::77"), m.RouterAddress, netip.MustParseAddr("fd3f::1"), netip.MustParseAddr("2001:db8::2"))
		msg = c.Bytes("fwd.payload", c.Int("fwd.plen", 1, 1200))
		desc = "not-for-victim"
	case 5: // unknown / unsupported types
		mt = frame.MessageType(c.Uniform("unk.mt", 0, 255))
		msg = c.Bytes("unk.payload", c.Int("unk.plen", 1, 300))
		desc = "any-type"
	case 7: // a well-formed packet (leaves a connection entry at V, admitted or not)
		mt = frame.NetworkTraffic
		pkt := c07TunPacket(s.id.Addr.IP, w.V.IP(), uint8(core.OneOf(c, "conn.proto", 6, 17, 58)), 1234, uint16(core.OneOf(c, "conn.port", 53, 80, 9999)))
		msg = pkt[:60]
		desc = "traffic-wellformed"
	case 8: // a well-formed error ping about a router or connection V may have an entry for
		about := w.srcs[c.Pick("errping.about", len(w.srcs))].id.Addr.IP
		code := uint8(core.OneOf(c, "errping.code", 1, 1, 3, 4, 2, 5))
		hdr := pingHeaderFor(s.id, c.Uint64("errping.id"), "error", code, false)
		var body []byte
		if code == 1 {
			body, _ = cbor.Marshal(map[string]any{"u": about.AsSlice()})
		} else {
			body, _ = cbor.Marshal(map[string]any{"d": about.AsSlice(), "t": core.OneOf(c, "errping.proto", 6, 17, 58), "p": core.OneOf(c, "errping.port", 1234, 53, 80, 9999)})
		}
		msg = append(append([]byte{1, byte(len(hdr))}, hdr...), body...)
		mt = core.OneOf(c, "errping.mt", frame.RouterPing, frame.RouterCtrl)
		desc = fmt.Sprintf("error-ping(code %d about %s)", code, about)
	default: // big disconnect / big announce info crossing tiers
		pt := core.OneOf(c, "big.type", "disconnect", "announce")
		hdr := pingHeaderFor(s.id, 99, pt, 0, false)
		msg = append([]byte{1, byte(len(hdr))}, hdr...)
		msg = append(msg, c13PingBody(c, w, pt)...)
		mt = frame.RouterPing
		dst = m.RouterAddress
		if pt == "announce" {
			mt = frame.RouterHopPing
		}
		desc = "big/" + pt
	}
	if len(msg) == 0 {
		msg = []byte{0}
	}
	if len(msg) > 10000 {
		msg = msg[:10000]
	}
	f, err := w.b.NewFrameV1(s.id.Addr.IP, dst, mt, sw, msg, nil)
	if err != nil {
		return nil, desc + "(not buildable)"
	}
	f.SetTTL(ttl)
	w.seal(s, f, badAuth)
	d, _ := f.FrameDataWithMargins(0, 0)
	data = append([]byte(nil), d...)
	f.ReturnToPool()
	// Appendix (after sealing: it is not covered by the frame signature).
	if cat == 1 || (cat == 0 && c.Chance("apx.any", 1, 4)) {
		signer := s.id
		if c.Chance("chain.signer.peer", 1, 2) {
			signer = w.P.ID
		}
		n := core.OneOf(c, "chain.n", 0, 1, 2, 5, 40, 98, 99, 100, 120)
		ctx := make([]byte, 88)
		if !mt.IsEncrypted() {
			ctx = c08Context(data)
		}
		apx = c13Chain(c, signer, n, ctx, c.Chance("chain.garbage?", 1, 5), w.V.IP())
		if c.Chance("apx.random", 1, 8) {
			apx = c.Bytes("apx.bytes", core.OneOf(c, "apx.len", 1, 64, 65, 200, 10000))
		}
		data = append(data, apx...)
		desc += fmt.Sprintf("+apx(%d)", len(apx))
	}
	return data, fmt.Sprintf("%s src=%s type=%d ttl=%d badauth=%v len=%d", desc, s.name, mt, ttl, badAuth, len(data))
}

var (
	c13OddOnce sync.Once
	c13Odd     []*ids.Identity
)

// c13OddIdentities: self-consistent identities (address = digest of the key
// material) with a 33- and a 31-byte public key, found by brute force over the
// easing value; frames "from" them are signed with the genuine 64-byte private key.
func c13OddIdentities() []*ids.Identity {
	c13OddOnce.Do(func() {
		base := c01FromPool(ids.Group("af")[1])
		for _, v := range []struct {
			name string
			pub  []byte
		}{{"odd-33-byte-key", append(append([]byte(nil), base.pub...), 7)}, {"odd-31-byte-key", append([]byte(nil), base.pub[:31]...)}} {
			x := base
			x.pub = v.pub
			for start := uint64(1); start < 200000; start += 6000 {
				if nx, ok := c01Rederive(x, start); ok {
					addr := &m.Address{PublicAddress: nx.public(), PrivateKey: ed25519.PrivateKey(nx.priv)}
					c13Odd = append(c13Odd, &ids.Identity{Index: -1, Group: v.name, Addr: addr})
					break
				}
			}
		}
	})
	return c13Odd
}

func c13Setup(c *core.Case) *c13World {
	topo := genTopo(c, 3, 5)
	st := config.Store{ServiceConfigs: []config.ServiceConfig{{Name: "dns", URL: "udp://:53", Public: true}, {Name: "web", URL: "http://web.myco", Friends: true}}}
	_ = st
	// One world in four is a young router: everybody it has heard of so far is a
	// stub router (a routing table with no route it may forward over).
	young := c.Chance("world.young", 1, 4)
	vi := c.Int("victim", 0, topo.n-1)
	o := meshOpts{infoClass: 1, withTun: true, spread: c.Bool("spread"), bigLabels: true}
	if young {
		o.stub = func(i int) bool { return i != vi }
		c.Class("world/young-router-among-stubs")
	}
	ms := buildMesh(c, topo, o)
	c09Flood(c, ms, 400_000, false)
	V := ms.nodes[vi]
	adj := topo.adj()
	P := ms.nodes[adj[vi][c.Pick("peer", len(adj[vi]))]]
	w := &c13World{c: c, ms: ms, V: V, P: P, link: V.Links[P.IP()], b: frame.NewFrameBuilder()}
	// Sources: the direct peer, a known remote router, two never-seen identities.
	mk := func(name string, id *ids.Identity, known bool) *c13Source {
		s := &c13Source{name: name, id: id, party: vnet.NewParty(id), unknown: !known}
		if known {
			_ = V.St.AddRouter(&id.Addr.PublicAddress)
			vs := V.St.GetSession(id.Addr.IP)
			pv := vnet.NewParty(V.ID)
			s.sess = s.party.SessionWith(pv)
			if vs != nil {
				_ = vnet.KeyExchange(s.sess, vs)
			}
		}
		return s
	}
	w.srcs = append(w.srcs, mk("peer", P.ID, true))
	for i, n := range ms.nodes {
		if n != V && n != P {
			w.srcs = append(w.srcs, mk(fmt.Sprintf("known-n%d", i), n.ID, true))
			break
		}
	}
	w.srcs = append(w.srcs, mk("unseen-a", ms.outsider(ids.Group("af"), 0), false), mk("unseen-b", ms.outsider(ids.Group("ea"), 1), false), mk("unseen-privacy", ids.Group("privacy")[0], false))
	// Never-seen identities whose address really is the digest of an odd-sized key.
	for _, odd := range c13OddIdentities() {
		w.srcs = append(w.srcs, mk("unseen-"+odd.Group, odd, false))
	}
	return w
}

func TestC13Structured(t *testing.T) {
	core.Run(t, core.Opts{ID: "C13", Quick: 150, Thorough: 6000}, func(c *core.Case) {
		w := c13Setup(c)
		n := c.Int("frames", 50, 300)
		for i := 0; i < n; i++ {
			if c.Chance("own-hello", 1, 25) {
				// The victim itself starts a key setup with its peer; whatever the peer
				// answers reaches the victim one to three times (the peer is
				// authenticated, but nothing obliges it to answer only once).
				vn := w.ms.vn
				w.V.Rtr.VerifExpireHello(w.P.IP())
				_, _ = w.V.Rtr.HelloPing.Send(w.P.IP())
				both := c.Chance("own-hello.peer-too", 2, 3)
				peerFirst := both && c.Chance("own-hello.peer-before-seeing-the-request", 1, 3)
				if peerFirst {
					// ... and so does the peer, before it has seen the victim's request.
					w.P.Rtr.VerifExpireHello(w.V.IP())
					_, _ = w.P.Rtr.HelloPing.Send(w.V.IP())
					switch c.Pick("own-hello.peer-request-fate", 3) {
					case 1:
						// The peer's request is under way for long: at the peer it has
						// expired and the cleaner has run when the victim's request
						// arrives, so the peer answers that one as well. Both messages
						// then reach the victim, the older request first.
						w.P.Rtr.VerifExpireHello(w.V.IP())
						_ = w.P.Rtr.HelloPing.Clean(nil)
						c.Class("structured/own-hello-peer-request-outlived-its-state")
					case 2:
						// The peer's first request got no answer in time; it asks again.
						time.Sleep(2 * time.Millisecond)
						w.P.Rtr.VerifExpireHello(w.V.IP())
						_ = w.P.Rtr.HelloPing.Clean(nil)
						_, _ = w.P.Rtr.HelloPing.Send(w.V.IP())
						c.Class("structured/own-hello-peer-asks-twice")
					}
				}
				var answers []*vnet.InFlight
				for steps := 0; len(vn.Queue) > 0 && steps < 30; steps++ {
					fl := vn.Drop(0)
					if fl.To == w.V {
						answers = append(answers, fl)
						continue
					}
					if r := vn.Inject(fl.To, fl.Link, fl.Data); r.Panicked {
						c.Fatalf("hello of the victim panicked %s: %v", fl.To.Name, vn.Panics)
					}
				}
				if both && !peerFirst {
					// ... and so does the peer after it has answered: it was restarted
					// (keys and pending state gone) and its next packet starts a setup.
					_ = w.P.St.SetEncryptionSession(w.V.IP(), nil)
					w.P.Rtr.VerifExpireHello(w.V.IP())
					_, _ = w.P.Rtr.HelloPing.Send(w.V.IP())
					for steps := 0; len(vn.Queue) > 0 && steps < 30; steps++ {
						fl := vn.Drop(0)
						if fl.To == w.V {
							answers = append(answers, fl)
							continue
						}
						if r := vn.Inject(fl.To, fl.Link, fl.Data); r.Panicked {
							c.Fatalf("hello of the peer panicked %s: %v", fl.To.Name, vn.Panics)
						}
					}
				}
				if len(answers) >= 2 && c.Chance("own-hello.at-once", 2, 3) {
					// Two of the peer's messages (its own request, its answer) reach the
					// victim together and are handled by two workers, one of them held
					// at a generated schedule point.
					if at := core.OneOf(c, "own-hello.point", "", "instance.Identity", "instance.Identity", "instance.Identity", "instance.State", "instance.State", "instance.Config"); at == "" {
						w.V.Gate.Arm(c.Int("own-hello.any-call", 0, 12))
					} else {
						w.V.Gate.ArmAt(at, c.Uniform("own-hello.call", 0, 5))
					}
					i := c.Pick("own-hello.first", len(answers))
					j := c.Pick("own-hello.second", len(answers)-1)
					if j >= i {
						j++
					}
					res, _, ok := vn.InjectPar(w.V, []*vnet.VLink{answers[i].Link, answers[j].Link}, [][]byte{answers[i].Data, answers[j].Data})
					if res.Panicked {
						c.Fatalf("two key-setup messages of the peer handled by two workers of the victim at once (held at %q, %s) panicked a worker: %v", w.V.Gate.Point, w.V.Gate.Stack, vn.Panics)
					}
					if !ok {
						c.Fatalf("two key-setup messages of the peer handled at once: the workers of the victim did not finish (held at %q)", w.V.Gate.Point)
					}
					c.Class("structured/key-setup-messages-handled-at-once")
				}
				copies := c.Int("own-hello.copies", 1, 3)
				for _, fl := range answers {
					for k := 0; k < copies; k++ {
						if r := vn.Inject(w.V, fl.Link, fl.Data); r.Panicked {
							c.Fatalf("copy %d of the peer's answer to the victim's own hello panicked a worker of the victim: %v", k+1, vn.Panics)
						}
					}
				}
				vn.Queue = nil
				c.Class("structured/own-hello-answered-x" + fmt.Sprint(copies))
			}
			if c.Chance("own-pong", 1, 25) {
				// The victim pings its peer (keep-alive) and, as it does after a
				// timeout, asks again under the same ping ID once or twice: a slow
				// but healthy peer answers every request, so several separately
				// sealed answers with one ping ID reach the victim.
				vn := w.ms.vn
				viaPeer := c.Bool("own-pong.peer")
				var answers []*vnet.InFlight
				var id uint64
				rounds := c.Int("own-pong.rounds", 1, 3)
				for r := 0; r < rounds; r++ {
					_, pid, err := w.V.Rtr.PingPong.Send(w.P.IP(), viaPeer, id)
					if err != nil {
						break
					}
					id = pid
					for steps := 0; len(vn.Queue) > 0 && steps < 30; steps++ {
						fl := vn.Drop(0)
						if fl.To == w.V {
							answers = append(answers, fl)
							continue
						}
						if r := vn.Inject(fl.To, fl.Link, fl.Data); r.Panicked {
							c.Fatalf("ping of the victim panicked %s: %v", fl.To.Name, vn.Panics)
						}
					}
				}
				for k, fl := range answers {
					if r := vn.Inject(w.V, fl.Link, fl.Data); r.Panicked {
						c.Fatalf("answer %d of %d to the victim's own ping (one ping ID) panicked a worker of the victim: %v", k+1, len(answers), vn.Panics)
					}
				}
				vn.Queue = nil
				c.Class("structured/own-ping-answered-x" + fmt.Sprint(len(answers)))
			}
			data, desc := w.build(c)
			if data == nil {
				continue
			}
			link := w.link
			res := w.ms.vn.Inject(w.V, link, data)
			handled := res.ParseErr == nil && res.Escalated > 0
			rejected := handled && len(res.RouterErrs) > 0
			if res.Panicked {
				c.Fatalf("frame %d (%s) panicked a worker of the victim: %v", i, desc, w.ms.vn.Panics)
			}
			// Whatever V emitted is delivered onward so that the other routers see
			// forwarded material too (they are honest; their panics count as well).
			for steps := 0; len(w.ms.vn.Queue) > 0 && steps < 50; steps++ {
				fl, r := w.ms.vn.Deliver(0)
				if r.Panicked {
					c.Fatalf("frame %d (%s): forwarded material panicked %s: %v", i, desc, fl.To.Name, w.ms.vn.Panics)
				}
			}
			w.ms.vn.Queue = nil
			for _, nd := range w.ms.nodes {
				for len(nd.Tun.SendFrame) > 0 {
					f := <-nd.Tun.SendFrame
					f.ReturnToPool()
				}
				for len(nd.Tun.SendRaw) > 0 {
					<-nd.Tun.SendRaw
				}
			}
			kind := strings.Fields(desc)[0]
			if j := strings.Index(kind, "+"); j > 0 {
				kind = kind[:j]
			}
			c.Eval(fmt.Sprintf("%s|%v|%v", kind, handled, rejected), rejected, func() any {
				return map[string]any{"layer": "structured", "frame": desc, "handler_errors": fmt.Sprint(res.RouterErrs)}
			})
			c.Class("structured/" + kind)
		}
	})
}
