package props

// C10 — Unicast delivery, bounded forwarding, content preservation.
//
// (a) Converged honest meshes (C09's generator and flood): for generated
// ordered pairs (A,B) the real PingPong.Send(B) at A; oracle: only A and B
// originate frames, B answers exactly once, A's notification fires, and the
// crossing log obeys the forwarding rules.
// (b) Adversarial tables: the same topologies, but every routing table is
// filled directly with generated next hops (cycles, dead ends, inconsistent
// pairs); frames of every message type, with and without switch blocks (valid
// forward blocks, random blocks, unknown labels), initial TTL 1..255, are
// originated at or injected into generated routers.
// Forwarding rules over the crossing log, per frame lineage (all bytes except
// TTL, flow flags and the switch block): a lineage starts at the router named
// in its source address (or at the harness injection), every later crossing
// leaves a router that received the lineage earlier with a strictly larger
// TTL, no frame is on a link with TTL 0, and a unicast lineage crosses at most
// initial TTL - 1 links.

import (
	"encoding/hex"
	"fmt"
	"net/netip"
	"testing"
	"time"

	"github.com/mycoria/mycoria/frame"
	"github.com/mycoria/mycoria/m"

	"verif/core"
	"verif/vnet"
)

var c10Opts = core.Opts{ID: "C10", Quick: 400, Thorough: 8000}

type c10Lineage struct {
	key      string
	src      netip.Addr
	first    *vnet.Crossing
	recvTTL  map[netip.Addr]int // highest TTL with which each router received it
	count    int
	injected bool
	initTTL  int
}

func c10Key(data []byte) (key string, ttl int, swLen int, ok bool) {
	if len(data) < 52 {
		return "", 0, 0, false
	}
	swLen = int(data[48])
	if len(data) < 49+swLen+2 {
		return "", 0, 0, false
	}
	k := make([]byte, 0, len(data))
	k = append(k, data[0])
	k = append(k, data[3:49]...)
	k = append(k, data[49+swLen:]...)
	return hex.EncodeToString(k[:min(len(k), 96)]) + fmt.Sprintf("/%d/%x", len(k), fnvBytes(k)), int(data[1]), swLen, true
}

func fnvBytes(b []byte) uint64 {
	h := uint64(14695981039346656037)
	for _, x := range b {
		h ^= uint64(x)
		h *= 1099511628211
	}
	return h
}

// c10Audit checks the forwarding rules over the crossings logged since the last reset.
// injected maps lineage keys of harness-made frames to their initial TTL and
// the router where they entered (zero addr = originated by that router itself).
func c10Audit(c *core.Case, ms *mesh, injected map[string]c10Inject, unicastOnly bool) map[string]*c10Lineage {
	lin := map[string]*c10Lineage{}
	for _, cr := range ms.vn.Crossings {
		key, ttl, _, ok := c10Key(cr.Data)
		if !ok {
			c.Fatalf("a frame shorter than a header crossed the link %s->%s", cr.From, cr.To)
		}
		l := lin[key]
		if inj, ok := injected[key]; ok && l == nil && ttl == 0 && inj.zeroTTL && cr.From == inj.at {
			// The harness itself hands a neighbour's frame with TTL 0 to a router
			// (nobody honest sends one): it must not travel any further.
			l = &c10Lineage{key: key, first: cr, recvTTL: map[netip.Addr]int{cr.To: 0}, injected: true, initTTL: 0}
			copy16 := [16]byte(cr.Data[16:32])
			l.src = netip.AddrFrom16(copy16)
			lin[key] = l
			continue
		}
		if ttl == 0 {
			c.Fatalf("a frame with TTL 0 was put on the link n%d->n%d", ms.idx[cr.From], ms.idx[cr.To])
		}
		if l == nil {
			var s16 [16]byte
			copy(s16[:], cr.Data[16:32])
			l = &c10Lineage{key: key, src: netip.AddrFrom16(s16), first: cr, recvTTL: map[netip.Addr]int{}}
			lin[key] = l
			if inj, ok := injected[key]; ok {
				l.injected, l.initTTL = true, inj.ttl
				if cr.From != inj.at {
					c.Fatalf("harness frame entered at n%d but its first crossing leaves n%d", ms.idx[inj.at], ms.idx[cr.From])
				}
				if ttl > inj.ttl-1 {
					c.Fatalf("frame with initial TTL %d was forwarded with TTL %d (must decrease)", inj.ttl, ttl)
				}
			} else {
				// Must have been originated by the router named as its source.
				if cr.From != l.src {
					for i, x := range ms.vn.Crossings {
						c.Note("crossing %d: n%d->n%d ttl=%d type=%d src=n%d sw=%x len=%d", i, ms.idx[x.From], ms.idx[x.To], x.Data[1], x.Data[4], ms.idx[netip.AddrFrom16([16]byte(x.Data[16:32]))], x.Data[49:49+int(x.Data[48])], len(x.Data))
					}
					c.Fatalf("frame content changed in transit or frame forged: first seen leaving n%d with source %s (type %d): no router received these bytes before", ms.idx[cr.From], l.src, cr.Data[4])
				}
				l.initTTL = ttl + 1
			}
		} else {
			prev, got := l.recvTTL[cr.From]
			originAgain := cr.From == l.src && !l.injected
			if !got && !originAgain {
				c.Fatalf("n%d forwarded a frame it never received (source %s, type %d)", ms.idx[cr.From], l.src, cr.Data[4])
			}
			if got && ttl >= prev {
				c.Fatalf("n%d received a frame with TTL %d and forwarded it with TTL %d: TTL must strictly decrease", ms.idx[cr.From], prev, ttl)
			}
		}
		if ttl > l.recvTTL[cr.To] {
			l.recvTTL[cr.To] = ttl
		}
		l.count++
		if unicastOnly && l.count > max(l.initTTL-1, 0) {
			c.Fatalf("a frame with initial TTL %d crossed %d links", l.initTTL, l.count)
		}
	}
	return lin
}

type c10Inject struct {
	ttl     int
	at      netip.Addr
	zeroTTL bool // handed to the router by the harness with TTL 0
}

func c10Drain(c *core.Case, ms *mesh, max int) int {
	n := ms.vn.Run(max, nil, func(fl *vnet.InFlight, r vnet.Result) {
		if r.Panicked {
			c.Fatalf("worker panic at %s: %v", fl.To.Name, ms.vn.Panics)
		}
	})
	if len(ms.vn.Queue) > 0 {
		c.Fatalf("frames still in flight after %d deliveries", max)
	}
	return n
}

func TestC10Converged(t *testing.T) {
	core.Run(t, c10Opts, func(c *core.Case) {
		maxN := 16
		if !core.Thorough() && !c.Chance("big", 1, 6) {
			maxN = 8
		}
		topo := genTopo(c, 2, maxN)
		o := meshOpts{infoClass: c.Weighted("info", 3, 3, 2, 2), spread: c.Bool("spread"), bigLabels: c.Bool("biglabels")}
		ms := buildMesh(c, topo, o)
		c.Note("topology %s", topo)
		c09Flood(c, ms, 400_000, false)
		if c.Bool("maintenance") {
			// The periodic table maintenance ran on some routers (it has nothing to
			// remove in a mesh of this size and must leave routing as it is).
			for i, n := range ms.nodes {
				if c.Bool("maintenance.node") {
					n.Rtr.Table().Clean()
					c.Note("table maintenance ran at n%d", i)
				}
			}
			c.Class("after-table-maintenance")
		}
		ms.vn.LogCrossings = true
		pairs := c.Int("pairs", 1, 10)
		for p := 0; p < pairs; p++ {
			a := c.Int("pair.a", 0, topo.n-1)
			b := c.Int("pair.b", 0, topo.n-2)
			if b >= a {
				b++
			}
			A, B := ms.nodes[a], ms.nodes[b]
			ms.vn.Crossings = nil
			notify, _, err := A.Rtr.PingPong.Send(B.IP(), false, 0)
			if err != nil {
				c.Fatalf("n%d cannot send a routed ping to n%d (distance %d): %v", a, b, topo.dist(a, b), err)
			}
			if c.Chance("cleaner-tick", 1, 4) {
				// The once-a-minute clean-up of the ping handlers runs at both ends
				// while the request is under way (nothing of it is old enough to go).
				for _, n := range []*vnet.Node{A, B} {
					_ = n.Rtr.PingPong.Clean(nil)
					_ = n.Rtr.HelloPing.Clean(nil)
					_ = n.Rtr.ErrorPing.Clean(nil)
				}
				c.Class("ping-handler-clean-up-while-the-request-is-under-way")
			}
			c10Drain(c, ms, 5000)
			select {
			case <-notify:
			default:
				c.Fatalf("routed ping n%d -> n%d (distance %d): the reply never reached the sender", a, b, topo.dist(a, b))
			}
			lin := c10Audit(c, ms, nil, true)
			origins := map[netip.Addr]int{}
			for _, l := range lin {
				origins[l.src]++
			}
			for src, k := range origins {
				switch src {
				case A.IP():
					if k != 1 {
						c.Fatalf("requester n%d originated %d frames for one ping", a, k)
					}
				case B.IP():
					if k != 1 {
						c.Fatalf("destination n%d answered %d times", b, k)
					}
				default:
					c.Fatalf("ping n%d -> n%d: router n%d, which is neither end, originated a frame (handled the request or reported an error)", a, b, ms.idx[src])
				}
			}
			if origins[B.IP()] != 1 {
				c.Fatalf("ping n%d -> n%d was not handled by the destination", a, b)
			}
			// A routed frame of a generated size (one in two: a size at which it
			// fills a link's buffer exactly) must arrive at B as well.
			if c.Bool("sized") {
				mt := core.OneOf(c, "sized.type", frame.NetworkTraffic, frame.SessionData, frame.MessageType(77))
				size := c.Int("sized.len", 1, 3000)
				fit := c.Bool("sized.fit")
				if fit {
					if sz, ok := exactFit(A.Builder, A.IP(), B.IP(), mt, nil, 0, linkTiers[c.Pick("sized.tier", len(linkTiers))]); ok {
						size = sz
					}
				}
				f, err := A.Builder.NewFrameV1(A.IP(), B.IP(), mt, nil, c.Bytes("sized.payload", size), nil)
				if err != nil {
					c.Fatalf("frame: %v", err)
				}
				f.SetTTL(32)
				fd, _ := f.FrameDataWithMargins(0, 0)
				key, _, _, _ := c10Key(fd)
				ms.vn.Crossings = nil
				if err := A.Rtr.RouteFrame(f); err != nil {
					c.Fatalf("n%d cannot route a frame with a message of %d bytes to n%d: %v", a, size, b, err)
				}
				c10Drain(c, ms, 5000)
				arrived := false
				for _, cr := range ms.vn.Crossings {
					if k, _, _, ok := c10Key(cr.Data); ok && k == key && cr.To == B.IP() {
						arrived = true
					}
				}
				if !arrived {
					c.Fatalf("a routed frame n%d -> n%d (distance %d, type %d, message of %d bytes) never arrived at its destination", a, b, topo.dist(a, b), mt, size)
				}
				c10Audit(c, ms, map[string]c10Inject{key: {ttl: 32, at: A.IP()}}, false)
				if fit {
					c.Class("routed-frame-fills-a-link-buffer-exactly")
				}
			}
			// The requester announces itself again (as it does every few minutes)
			// and pings the same router once more.
			if c.Chance("again-after-announce", 1, 4) {
				time.Sleep(3 * time.Millisecond)
				if err := A.Rtr.VerifAnnounce(); err != nil {
					c.Fatalf("announce at n%d failed: %v", a, err)
				}
				c10Drain(c, ms, 20000)
				time.Sleep(3 * time.Millisecond)
				ms.vn.Crossings = nil
				notify2, _, err := A.Rtr.PingPong.Send(B.IP(), false, 0)
				if err != nil {
					c.Fatalf("n%d cannot send a second routed ping to n%d: %v", a, b, err)
				}
				c10Drain(c, ms, 5000)
				select {
				case <-notify2:
				default:
					c.Fatalf("second routed ping n%d -> n%d (distance %d), sent after n%d announced itself again: the reply never reached the sender", a, b, topo.dist(a, b), a)
				}
				c.Class("second-ping-after-a-new-announcement")
			}
			d := topo.dist(a, b)
			c.Eval(fmt.Sprintf("%s|%d->%d", topo, a, b), d >= 3, func() any {
				return map[string]any{"topology": topo.String(), "from": a, "to": b, "distance": d, "crossings": len(ms.vn.Crossings)}
			})
			if d >= 3 {
				c.Class("pair-distance>=3")
			}
			// Last of all (the mesh is no longer the converged one afterwards): the
			// requester loses the link it has just used for B. Its table withdraws
			// every route over that neighbour at once; if it still holds a route to
			// B over a neighbour whose link is up, the next frame for B leaves over
			// a link that is up - it is not sent into the lost link or dropped.
			if p == pairs-1 && c.Chance("link-lost", 1, 3) {
				rte, _ := A.Rtr.Table().LookupNearestRoute(B.IP())
				if rte == nil || rte.DstIP != B.IP() {
					continue
				}
				X := ms.vn.ByIP[rte.NextHop]
				if X == nil || len(A.Links) < 2 || len(X.Links) < 2 {
					continue
				}
				la, lx := A.Links[X.IP()], X.Links[A.IP()]
				if la == nil || lx == nil {
					continue
				}
				la.Closing, lx.Closing = true, true
				A.Peer.RemoveLink(la)
				X.Peer.RemoveLink(lx)
				delete(A.Links, X.IP())
				delete(X.Links, A.IP())
				c.Class("requester-lost-the-link-it-used")
				rte2, _ := A.Rtr.Table().LookupNearestRoute(B.IP())
				if rte2 == nil || rte2.DstIP != B.IP() {
					c.Class("requester-lost-the-link-it-used/no-other-route")
					continue
				}
				if rte2.NextHop == X.IP() {
					c.Fatalf("n%d lost its link to n%d, its table still routes n%d over it", a, ms.idx[X.IP()], b)
				}
				if l := A.Links[rte2.NextHop]; l == nil || l.Closing {
					continue
				}
				f, err := A.Builder.NewFrameV1(A.IP(), B.IP(), frame.NetworkTraffic, nil, c.Bytes("link-lost.payload", 40), nil)
				if err != nil {
					c.Fatalf("frame: %v", err)
				}
				f.SetTTL(32)
				ms.vn.Queue = nil
				if err := A.Rtr.RouteFrame(f); err != nil {
					c.Fatalf("n%d lost its link to n%d and holds another route to n%d (over n%d, link up), but cannot route a frame to n%d: %v", a, ms.idx[X.IP()], b, ms.idx[rte2.NextHop], b, err)
				}
				if len(ms.vn.Queue) != 1 || ms.vn.Queue[0].From != A || A.Links[ms.vn.Queue[0].To.IP()] == nil {
					c.Fatalf("n%d lost its link to n%d and holds another route to n%d: the next frame for n%d did not leave over a link that is up (%d frames in flight)", a, ms.idx[X.IP()], b, b, len(ms.vn.Queue))
				}
				ms.vn.Queue = nil
				c.Class("requester-lost-the-link-it-used/frame-left-over-another-link")
			}
		}
	})
}

func TestC10Adversarial(t *testing.T) {
	core.Run(t, core.Opts{ID: "C10", Quick: 6000, Thorough: 300000}, func(c *core.Case) {
		topo := genTopo(c, 3, 10)
		ms := buildMesh(c, topo, meshOpts{spread: c.Bool("spread"), bigLabels: c.Bool("biglabels")})
		adj := topo.adj()
		c.Note("topology %s", topo)
		// Destinations: mesh nodes plus a few foreign addresses.
		dsts := []netip.Addr{}
		for _, n := range ms.nodes {
			dsts = append(dsts, n.IP())
		}
		for k := 0; k < 3; k++ {
			a := ms.nodes[0].IP().As16()
			a[15] ^= byte(0x40 + k)
			a[14] = byte(k)
			dsts = append(dsts, netip.AddrFrom16(a))
		}
		// Fill every table with generated routes.
		cycleLikely := false
		forceCycle := topo.hasCycle() && c.Bool("force.cycle")
		for i, n := range ms.nodes {
			for _, dst := range dsts {
				if dst == n.IP() {
					continue
				}
				if !(forceCycle && !ms.idx2has(dst)) && !c.Chance("route.present", 3, 4) {
					continue
				}
				nb := adj[i][c.Pick("route.nexthop", len(adj[i]))]
				if forceCycle && topo.hasEdge(i, (i+1)%topo.n) && !ms.idx2has(dst) {
					nb = (i + 1) % topo.n // foreign destinations circulate around the ring
				}
				relay := ms.nodes[c.Pick("route.relay", topo.n)].IP()
				_, err := n.Rtr.Table().AddRoute(m.RoutingTableEntry{
					DstIP: dst, NextHop: ms.nodes[nb].IP(), Source: m.RouteSourceGossip, Expires: time.Now().Add(time.Hour),
					Path: m.SwitchPath{Hops: []m.SwitchHop{
						{Router: n.IP(), ForwardLabel: 1, Delay: uint16(c.Int("route.delay", 0, 50))},
						{Router: ms.nodes[nb].IP(), ForwardLabel: 2, ReturnLabel: 3},
						{Router: relay, ForwardLabel: 2, ReturnLabel: 3},
						{Router: dst, ReturnLabel: 4},
					}},
				})
				if err == nil {
					cycleLikely = true
				}
			}
		}
		ms.vn.LogCrossings = true
		injected := map[string]c10Inject{}
		nFrames := c.Int("frames", 1, 8)
		entered := 0
		for k := 0; k < nFrames; k++ {
			at := c.Int("frame.at", 0, topo.n-1)
			X := ms.nodes[at]
			dst := dsts[c.Pick("frame.dst", len(dsts))]
			if forceCycle && c.Bool("frame.foreign") {
				dst = dsts[len(dsts)-1-c.Pick("frame.foreign.k", 3)]
			}
			mt := frame.MessageType(core.OneOf(c, "frame.type", 1, 2, 8, 16, 17, 0, 3, 99))
			ttl := core.OneOf(c, "frame.ttl", 1, 2, 3, 5, 8, 32, 64, 255, 0, 1)
			if c.Bool("frame.ttl.rand") {
				ttl = c.Int("frame.ttl.v", 0, 255)
			}
			// Switch block variants.
			var sw []byte
			first := m.SwitchLabel(0)
			switch c.Weighted("frame.sw", 4, 3, 2, 2) {
			case 1: // valid label path along existing links
				cur := at
				var labels []m.SwitchLabel
				steps := c.Int("sw.steps", 1, 6)
				for s := 0; s < steps; s++ {
					nb := adj[cur][c.Pick("sw.nb", len(adj[cur]))]
					for l, to := range ms.labelTo[cur] {
						_ = l
						_ = to
					}
					var lbl m.SwitchLabel
					for l, to := range ms.labelTo[cur] {
						if to == nb && (lbl == 0 || l < lbl) {
							lbl = l
						}
					}
					labels = append(labels, lbl)
					cur = nb
				}
				first = labels[0]
				blockLen := c.Int("sw.pad", 0, 6)
				for _, l := range labels[1:] {
					var tmp [3]byte
					nb := putUvarint(tmp[:], uint64(l))
					sw = append(sw, tmp[:nb]...)
				}
				sw = append(sw, make([]byte, 1+blockLen+2*len(labels))...)
			case 2:
				sw = c.Bytes("sw.random", c.Int("sw.len", 1, 40))
			case 3:
				sw = []byte{byte(c.Uniform("sw.unknown", 1, 127)), 0, 0, 0}
			}
			payload := c.Bytes("frame.payload", c.Int("frame.len", 20, 300))
			src := X.IP()
			viaLink := c.Bool("frame.inject")
			var from *vnet.Node
			if viaLink {
				// Arrives at X over a link from a neighbour; the source is a foreign router.
				from = ms.nodes[adj[at][c.Pick("frame.from", len(adj[at]))]]
				src = from.IP()
			}
			f, err := X.Builder.NewFrameV1(src, dst, mt, sw, payload, nil)
			if err != nil {
				c.Fatalf("frame: %v", err)
			}
			f.SetTTL(uint8(ttl))
			c.Note("frame %d: at n%d type=%d dst=%s ttl=%d sw=%x first=%d viaLink=%v", k, at, mt, dst, ttl, sw, first, viaLink)
			data, _ := f.FrameDataWithMargins(0, 0)
			key, _, _, _ := c10Key(data)
			if viaLink {
				cp := append([]byte(nil), data...)
				f.ReturnToPool()
				// The injection itself is the first crossing (from -> X).
				injected[key] = c10Inject{ttl: ttl + 1, at: from.IP(), zeroTTL: ttl == 0}
				ms.vn.Crossings = append(ms.vn.Crossings, &vnet.Crossing{From: from.IP(), To: X.IP(), Data: cp})
				res := ms.vn.Inject(X, X.Links[from.IP()], cp)
				if res.Panicked {
					c.Fatalf("worker panic at %s: %v", X.Name, ms.vn.Panics)
				}
				entered++
			} else {
				injected[key] = c10Inject{ttl: ttl, at: X.IP()}
				var rerr error
				if len(sw) > 0 && first != 0 {
					rerr = X.Sw.ForwardByLabel(f, first)
				} else {
					rerr = X.Rtr.RouteFrame(f)
				}
				if rerr != nil {
					f.ReturnToPool()
					c.Class("origin-could-not-route")
				} else {
					entered++
				}
			}
			c10Drain(c, ms, 20000)
		}
		lin := c10Audit(c, ms, injected, false)
		longest := 0
		for _, l := range lin {
			if l.injected && l.count > max(l.initTTL-1, 0) {
				c.Fatalf("a frame with initial TTL %d crossed %d links", l.initTTL, l.count)
			}
			if l.count > longest {
				longest = l.count
			}
		}
		nt := cycleLikely && longest >= 4
		c.Eval(fmt.Sprintf("%s|frames=%d|longest=%d|cross=%d", topo, nFrames, longest, len(ms.vn.Crossings)), nt, func() any {
			return map[string]any{"topology": topo.String(), "frames": nFrames, "longest_lineage_crossings": longest, "crossings": len(ms.vn.Crossings)}
		})
		if longest >= 8 {
			c.Class("lineage-with>=8-crossings")
		}
	})
}

func (ms *mesh) idx2has(a netip.Addr) bool { _, ok := ms.idx[a]; return ok }

func putUvarint(buf []byte, x uint64) int {
	i := 0
	for x >= 0x80 {
		buf[i] = byte(x) | 0x80
		x >>= 7
		i++
	}
	buf[i] = byte(x)
	return i + 1
}
