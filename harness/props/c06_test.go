package props

// C06 — Traffic policy: default-deny inbound firewall, no spoofing, outbound isolation.
//
// Generator: configuration with 0-5 friends, 0-6 services (scheme tcp / udp /
// http / https / icmp6 / ping6 / unsupported, host none / name / IPv6 literal,
// explicit / default / missing port, access public / friends / for-list of
// friend names and literal addresses / invalid mixtures), isolation on/off.
// Inbound: traffic frames from friend / for-listed / known / never-seen senders,
// sealed with the sender's real session, a wrong session, or without keys;
// protocol over 0..255 weighted to 6/17/58, ports around the configured ones,
// inner addresses equal to or different from the frame's, short packets.
// Outbound: local packets with own/foreign source, destinations friend /
// non-friend / outside fd00::/8 / multicast, IPv4 and garbage versions.
// Oracle: reference policy computed from the generated configuration (not
// from the parsed config object).

import (
	"fmt"
	"net/netip"
	"strings"
	"testing"
	"time"

	"github.com/fxamacker/cbor/v2"

	"github.com/mycoria/mycoria/config"
	"github.com/mycoria/mycoria/frame"
	"github.com/mycoria/mycoria/m"
	"github.com/mycoria/mycoria/state"

	"verif/core"
	"verif/ids"
	"verif/vnet"
)

var c06Opts = core.Opts{ID: "C06", Quick: 4000, Thorough: 150000}

type c06Service struct {
	scheme  string
	port    int // -1 = not given
	access  string
	forIPs  []netip.Addr
	friends bool
	public  bool
}

func (s c06Service) keys() (protos []uint8, port int, ok bool) {
	switch s.scheme {
	case "tcp":
		protos = []uint8{6}
		port = s.port
	case "udp":
		protos = []uint8{17}
		port = s.port
	case "http":
		protos, port = []uint8{6, 17}, 80
		if s.port >= 0 {
			port = s.port
		}
	case "https":
		protos, port = []uint8{6, 17}, 443
		if s.port >= 0 {
			port = s.port
		}
	case "icmp6", "ping6":
		protos, port = []uint8{58}, 0
	default:
		return nil, 0, false
	}
	if port < 0 {
		return nil, 0, false
	}
	return protos, port, true
}

type c06Sender struct {
	kind   string // friend, listed, known, unseen
	party  *vnet.Party
	sess   *state.Session // sender's session for V (nil if no keys)
	keyed  bool
	wrongS *state.Session
}

func TestC06(t *testing.T) {
	pool := ids.Routable()
	core.Run(t, c06Opts, func(c *core.Case) {
		// Identities: V, gateway P, candidates for senders.
		base := c.Pick("id.base", len(pool))
		pick := func(k int) *ids.Identity { return pool[(base+k)%len(pool)] }
		vID, pID := pick(0), pick(1)

		// Friends.
		var friendIDs []*ids.Identity
		st := config.Store{}
		nf := c.Int("friends", 0, 5)
		for i := 0; i < nf; i++ {
			id := pick(2 + i)
			friendIDs = append(friendIDs, id)
			st.FriendConfigs = append(st.FriendConfigs, config.FriendConfig{Name: fmt.Sprintf("friend%d", i), IP: id.Addr.IP.String()})
		}
		listedID := pick(8) // may appear in for-lists as a literal address
		knownID := pick(9)
		unseenID := pick(10)
		isFriend := func(ip netip.Addr) bool {
			for _, f := range friendIDs {
				if f.Addr.IP == ip {
					return true
				}
			}
			return false
		}

		// Services.
		var svcs []c06Service
		ns := c.Int("services", 0, 6)
		for i := 0; i < ns; i++ {
			s := c06Service{port: -1}
			s.scheme = core.OneOf(c, "svc.scheme", "tcp", "udp", "tcp", "udp", "tcp", "udp", "http", "https", "icmp6", "ping6", "tcp", "udp", "http", "https", "tcp", "udp", "ftp")
			if c.Chance("svc.port.given", 9, 10) {
				s.port = core.OneOf(c, "svc.port", 22, 53, 80, 443, 8080, 1, 65535, 25, 110, 5353, 9000)
				if c.Chance("svc.port.distinct", 7, 8) {
					s.port += i * 3 // mostly distinct ports, so that duplicates (refused by the parser) stay rare
					if s.port > 65535 {
						s.port = 65535 - i
					}
				}
			}
			host := core.OneOf(c, "svc.host", "", "svc.myco", "["+vID.Addr.IP.String()+"]")
			url := s.scheme + "://" + host
			if s.port >= 0 {
				url += fmt.Sprintf(":%d", s.port)
			}
			sc := config.ServiceConfig{Name: fmt.Sprintf("svc%d", i), URL: url}
			switch c.Weighted("svc.access", 12, 12, 15, 1, 1) {
			case 0:
				s.access, s.public, sc.Public = "public", true, true
			case 1:
				s.access, s.friends, sc.Friends = "friends", true, true
			case 2:
				s.access = "for"
				for k, n := 0, c.Int("svc.for.n", 1, 3); k < n; k++ {
					if len(friendIDs) > 0 && c.Bool("svc.for.friend") {
						fi := c.Pick("svc.for.fi", len(friendIDs))
						sc.For = append(sc.For, fmt.Sprintf("friend%d", fi))
						s.forIPs = append(s.forIPs, friendIDs[fi].Addr.IP)
					} else {
						sc.For = append(sc.For, listedID.Addr.IP.String())
						s.forIPs = append(s.forIPs, listedID.Addr.IP)
					}
				}
				if c.Bool("svc.for.plus-friends") {
					s.friends, sc.Friends = true, true
				}
			case 3:
				s.access, sc.Public, sc.Friends = "public+friends(invalid)", true, true
			default:
				s.access = "nobody(invalid)"
			}
			svcs = append(svcs, s)
			st.ServiceConfigs = append(st.ServiceConfigs, sc)
		}
		st.Router.Isolate = c.Bool("isolate")

		vn := vnet.New()
		// A third of the configurations reach the router the way they do in the
		// program: through a configuration file (JSON or YAML, written by the rig
		// under the documented key names; YAML files go without the address block,
		// see vnet.LoadViaFile).
		viaFile := core.OneOf(c, "config.via", "", "", "json", "yaml", "yml")
		V, err := vn.AddNode("V", vID, vnet.NodeOpts{Store: st, WithTun: true, ViaFile: viaFile})
		if err != nil && strings.Contains(err.Error(), "is refused as a") {
			c.Fatalf("%v", err)
		}
		if viaFile != "" && err == nil {
			c.Class("configuration-loaded-from-a-" + viaFile + "-file")
		}
		if err != nil {
			// Configuration refused by the parser: outside the quantified domain.
			c.Class("config-refused")
			c.Eval("refused", false, nil)
			return
		}
		P, err := vn.AddNode("P", pID, vnet.NodeOpts{})
		if err != nil {
			c.Fatalf("gateway: %v", err)
		}
		lV, _, err := vn.Connect(V, P, vnet.LinkOpts{LabelA: 5, LabelB: 6, LatA: 3, LatB: 3})
		if err != nil {
			c.Fatalf("connect: %v", err)
		}

		// Reference policy.
		allowed := func(proto uint8, port uint16, src netip.Addr) bool {
			for _, s := range svcs {
				protos, p, ok := s.keys()
				if !ok || int(port) != p {
					continue
				}
				match := false
				for _, pr := range protos {
					if pr == proto {
						match = true
					}
				}
				if !match {
					continue
				}
				if s.public {
					return true
				}
				if s.friends && isFriend(src) {
					return true
				}
				for _, ip := range s.forIPs {
					if ip == src {
						return true
					}
				}
			}
			return false
		}
		var schemes []string
		for _, s := range svcs {
			schemes = append(schemes, s.scheme+"/"+s.access)
		}
		c.Note("friends=%d isolate=%v services=%v", nf, st.Router.Isolate, schemes)

		// Unit-level differential: CheckInboundTrafficPolicy equals the reference.
		testPorts := []uint16{0, 1, 22, 53, 80, 443, 8080, 65535, 81}
		for _, proto := range []uint8{6, 17, 58, 1, 0} {
			for _, port := range testPorts {
				for _, id := range append(append([]*ids.Identity{listedID, knownID}, friendIDs...), unseenID) {
					got := V.Cfg.CheckInboundTrafficPolicy(proto, port, id.Addr.IP)
					if want := allowed(proto, port, id.Addr.IP); got != want {
						c.Fatalf("CheckInboundTrafficPolicy(proto %d, port %d, src %s) = %v, the configured services say %v", proto, port, id.Addr.IP, got, want)
					}
				}
			}
		}

		// Senders.
		builder := frame.NewFrameBuilder()
		mkSender := func(kind string, id *ids.Identity) *c06Sender {
			s := &c06Sender{kind: kind, party: vnet.NewParty(id)}
			if kind == "unseen" {
				return s
			}
			if err := V.St.AddRouter(&id.Addr.PublicAddress); err != nil {
				c.Fatalf("add router: %v", err)
			}
			vs := V.St.GetSession(id.Addr.IP)
			pv := vnet.NewParty(vID) // only to give the sender a record of V
			s.sess = s.party.SessionWith(pv)
			if c.Chance("sender.keyed."+kind, 5, 6) {
				if err := vnet.KeyExchange(s.sess, vs); err != nil {
					c.Fatalf("key exchange: %v", err)
				}
				s.keyed = true
			}
			// A session keyed with somebody else (wrong keys).
			other := vnet.NewParty(pID)
			s.wrongS = s.party.SessionWith(other)
			if err := vnet.KeyExchange(s.wrongS, other.SessionWith(s.party)); err != nil {
				c.Fatalf("key exchange: %v", err)
			}
			return s
		}
		senders := []*c06Sender{mkSender("listed", listedID), mkSender("known", knownID), mkSender("unseen", unseenID)}
		for _, f := range friendIDs {
			senders = append(senders, mkSender("friend", f))
		}

		confPorts := []uint16{0}
		for _, s := range svcs {
			if _, p, ok := s.keys(); ok {
				confPorts = append(confPorts, uint16(p))
			}
		}

		type verdictKey struct {
			proto uint8
			port  uint16
			src   netip.Addr
		}
		ntConfig := false
		{
			protoSet := map[uint8]bool{}
			nonPublic := false
			for _, s := range svcs {
				if pr, _, ok := s.keys(); ok {
					for _, p := range pr {
						protoSet[p] = true
					}
					if !s.public {
						nonPublic = true
					}
				}
			}
			ntConfig = len(protoSet) >= 2 && nonPublic
		}

		// Connection tracking: a 5-tuple first seen on a local (outbound) packet keeps
		// its remembered verdict; inbound packets of such a tuple are replies to a
		// tracked connection and outside the claim about services.
		// The remembered verdict is the one of the first packet of the tuple:
		// "allowed", "denied" (an inbound packet no service admits) or
		// "prohibited" (a well-formed local packet that isolation keeps out of
		// the mesh). Nothing that happens later (a
		// mirrored packet, an error ping from the remote) turns a refused tuple
		// into an admitted one.
		tracked := map[string]string{}
		type inTuple struct {
			sender      int
			proto       uint8
			port, rport uint16
		}
		type outTuple struct {
			dst    netip.Addr
			proto  uint8
			lp, rp uint16
		}
		var inHist []inTuple
		var outHist []outTuple
		errPingID := uint64(0x7700)
		afterErrPing, afterTime, timeEvents := false, false, 0
		afterHello := false
		chains := 0
		nPackets := c.Int("packets", 1, 40)
		for k := 0; k < nPackets; k++ {
			if c.Chance("direction.out", 1, 3) {
				key, may, tup := c06Outbound(c, vn, V, st.Router.Isolate, isFriend, friendIDs, knownID, P, tracked, nil)
				if key != "" {
					// (a local packet that fails the address checks leaves no entry behind)
					if _, seen := tracked[key]; !seen && tup.valid {
						if may {
							tracked[key] = "allowed"
						} else {
							tracked[key] = "prohibited"
						}
					}
					if tup.valid {
						outHist = append(outHist, outTuple{tup.dst, tup.proto, tup.lp, tup.rp})
					}
				}
				continue
			}
			mode := c.Weighted("in.mode", 12, 4, 4, 2, 1, 1, 2) // (6 = a local connection, an error report about its destination, time, the same local packet again) fresh, retry of an earlier tuple, mirror of a local packet, error ping, time passes, sender sets up new keys
			if afterErrPing && c.Chance("hello.after-error-ping", 1, 3) {
				mode = 5
			}
			if afterHello && len(inHist) > 0 && c.Bool("retry.after-hello") {
				mode = 1
			}
			afterHello = false
			if afterErrPing && timeEvents < 2 && c.Bool("time.after-error-ping") {
				mode = 4
			}
			if afterTime && len(inHist) > 0 && c.Bool("retry.after-time") {
				mode = 1
			}
			afterErrPing, afterTime = false, false
			if mode == 4 && timeEvents >= 2 {
				mode = 0
			}
			if mode == 4 {
				// Time passes without traffic and the connection-state cleaner runs
				// (it does every 10 s). Durations stay below the 10 minutes after
				// which entries are forgotten; ICMP entries are forgotten after 10 s.
				timeEvents++
				d := core.OneOf(c, "time.passes", 2*time.Second, 21*time.Second, 21*time.Second, 241*time.Second)
				V.Rtr.VerifAgeConnStates(d)
				V.Rtr.VerifCleanConnStates()
				if d > 10*time.Second {
					for key := range tracked {
						if parts := strings.Split(key, "|"); len(parts) == 4 && (parts[1] == "1" || parts[1] == "58") {
							delete(tracked, key)
						}
					}
				}
				c.Note("%s pass without traffic, cleaner tick", d)
				c.Class("time-passes-and-cleaner-tick")
				afterTime = true
				continue
			}
			if mode == 6 && (len(outHist) == 0 || chains >= 2) {
				mode = 0
			}
			if mode == 6 {
				// Some router reports a problem with the destination of an earlier
				// local packet (any router the victim has keys with may send such a
				// report, about any router), time passes, and the application
				// retries: the very same local packet again. Whatever the report did
				// to the entry, it does not let a packet out that the policy keeps in.
				chains++
				h := outHist[c.Pick("chain.tuple", len(outHist))]
				var reporter *c06Sender
				for _, cand := range senders {
					if cand.sess != nil && cand.keyed && (reporter == nil || c.Bool("chain.reporter.next")) {
						reporter = cand
					}
				}
				if reporter != nil {
					code := uint8(core.OneOf(c, "chain.code", 1, 1, 3, 4))
					mt := frame.RouterPing
					var body []byte
					if code == 1 {
						body, _ = cbor.Marshal(map[string]any{"u": h.dst})
					} else {
						mt = frame.RouterCtrl
						body, _ = cbor.Marshal(map[string]any{"d": h.dst, "t": h.proto, "p": h.rp})
					}
					errPingID++
					f, err := builder.NewFrameV1(reporter.party.ID.Addr.IP, V.IP(), mt, nil, c07PingMsg(pingHdr{"i": errPingID, "t": "error", "c": code}, body), nil)
					if err != nil {
						c.Fatalf("frame: %v", err)
					}
					if err := f.Seal(reporter.sess); err != nil {
						c.Fatalf("seal error ping: %v", err)
					}
					d, _ := f.FrameDataWithMargins(0, 0)
					d = append([]byte(nil), d...)
					f.ReturnToPool()
					if res := vn.Inject(V, lV, d); res.Panicked {
						c.Fatalf("error ping panicked a worker: %v", vn.Panics)
					}
					vn.Queue = nil
					c.Note("error ping code=%d about %s from %s", code, h.dst, reporter.kind)
				}
				if d := core.OneOf(c, "chain.time", 0, 11*time.Second, 21*time.Second); d > 0 {
					// (Always with a cleaner tick, as in the "time passes" event: ICMP
					// entries are older than 10 s then and go, in the router and in the
					// reference. Ageing without a tick would let a later, shorter
					// "time passes" event remove them unnoticed by the reference -
					// a false alarm of the first version, seen in the thorough tier.)
					V.Rtr.VerifAgeConnStates(d)
					V.Rtr.VerifCleanConnStates()
					for key := range tracked {
						if parts := strings.Split(key, "|"); len(parts) == 4 && (parts[1] == "1" || parts[1] == "58") {
							delete(tracked, key)
						}
					}
				}
				force := c06OutTuple{h.dst, h.proto, h.lp, h.rp, true}
				key, may, tup := c06Outbound(c, vn, V, st.Router.Isolate, isFriend, friendIDs, knownID, P, tracked, &force)
				if _, seen := tracked[key]; key != "" && !seen && tup.valid {
					if may {
						tracked[key] = "allowed"
					} else {
						tracked[key] = "prohibited"
					}
				}
				c.Class("local-connection/error-report-time-retry")
				continue
			}
			si := c.Pick("in.sender", len(senders))
			if mode == 5 {
				// A sender sets up new end-to-end keys with the router (a genuine,
				// complete hello exchange): that is about keys, it must not change
				// what the firewall decided about the sender's connections.
				s := senders[si]
				if s.sess == nil {
					continue
				}
				enc := state.NewEncryptionSession()
				kx, kxt, err := enc.InitKeyClientStart()
				if err != nil {
					c.Fatalf("kx: %v", err)
				}
				body, _ := cbor.Marshal(map[string]any{"kx": kx, "kxt": kxt, "mtu": 1400})
				errPingID++
				f, err := builder.NewFrameV1(s.party.ID.Addr.IP, V.IP(), frame.RouterPing, nil, c07PingMsg(pingHdr{"i": errPingID, "t": "hello"}, body), nil)
				if err != nil {
					c.Fatalf("frame: %v", err)
				}
				if err := f.Seal(s.sess); err != nil {
					c.Fatalf("seal hello: %v", err)
				}
				d, _ := f.FrameDataWithMargins(0, 0)
				d = append([]byte(nil), d...)
				f.ReturnToPool()
				before := len(vn.Queue)
				if res := vn.Inject(V, lV, d); res.Panicked {
					c.Fatalf("hello ping panicked a worker: %v", vn.Panics)
				}
				done := false
				for _, fl := range vn.Queue[before:] {
					g, err := vnet.View(fl.Data)
					if err != nil {
						continue
					}
					if g.DstIP() == s.party.ID.Addr.IP && g.MessageType() == frame.RouterPing && g.Unseal(s.sess) == nil {
						if _, _, rb, ok := c07PingParts(g.MessageData()); ok {
							var resp struct {
								KX  []byte `cbor:"kx"`
								KXT string `cbor:"kxt"`
							}
							if cbor.Unmarshal(rb, &resp) == nil && len(resp.KX) > 0 && enc.InitKeyClientComplete(resp.KX, resp.KXT) == nil {
								enc.InitCleanup()
								s.sess.SetEncryptionSession(enc)
								s.keyed = true
								done = true
							}
						}
					}
					g.ReturnToPool()
				}
				vn.Queue = vn.Queue[:before]
				if done {
					c.Class("sender-set-up-new-keys")
					afterHello = true
				} else {
					// The router answered nothing usable: it may have installed new keys
					// that the sender does not have.
					s.keyed = false
					c.Class("sender-hello-not-completed")
				}
				continue
			}
			if mode == 3 {
				// An authentic error ping from a sender (only its own connections may be affected).
				s := senders[si]
				if s.sess == nil || !s.keyed {
					c.Class("error-ping-skipped")
					continue
				}
				code := uint8(core.OneOf(c, "err.code", 1, 1, 3, 4, 0, 2))
				var body []byte
				mt := frame.RouterPing
				switch code {
				case 1:
					body, _ = cbor.Marshal(map[string]any{"u": s.party.ID.Addr.IP})
				case 3, 4:
					mt = frame.RouterCtrl
					port := uint16(40000)
					proto := uint8(core.OneOf(c, "err.proto", 6, 17, 58))
					if len(inHist) > 0 && c.Bool("err.from-history") {
						h := inHist[c.Pick("err.hist", len(inHist))]
						proto, port = h.proto, h.rport
					}
					body, _ = cbor.Marshal(map[string]any{"d": s.party.ID.Addr.IP, "t": proto, "p": port})
				default:
					body, _ = cbor.Marshal("text")
				}
				errPingID++
				msg := c07PingMsg(pingHdr{"i": errPingID, "t": "error", "c": code}, body)
				if code == 0 {
					msg = c07PingMsg(pingHdr{"i": errPingID, "t": "error"}, body)
				}
				f, err := builder.NewFrameV1(s.party.ID.Addr.IP, V.IP(), mt, nil, msg, nil)
				if err != nil {
					c.Fatalf("frame: %v", err)
				}
				if err := f.Seal(s.sess); err != nil {
					c.Fatalf("seal error ping: %v", err)
				}
				d, _ := f.FrameDataWithMargins(0, 0)
				d = append([]byte(nil), d...)
				f.ReturnToPool()
				if res := vn.Inject(V, lV, d); res.Panicked {
					c.Fatalf("error ping panicked a worker: %v", vn.Panics)
				}
				c.Note("error ping code=%d from %s", code, s.kind)
				c.Class(fmt.Sprintf("error-ping/code%d", code))
				afterErrPing = true
				vn.Queue = nil
				if code == 2 {
					// "no encryption keys" makes V drop its keys for this sender.
					s.keyed = false
				}
				continue
			}
			s := senders[si]
			proto := uint8(core.OneOf(c, "in.proto", 6, 17, 58, 6, 17, 1, 0, 41))
			if c.Chance("in.proto.rand", 1, 8) {
				proto = uint8(c.Uniform("in.proto.v", 0, 255))
			}
			port := confPorts[c.Pick("in.port", len(confPorts))]
			switch c.Pick("in.port.delta", 4) {
			case 1:
				port++
			case 2:
				port--
			case 3:
				port = uint16(c.Uniform("in.port.v", 0, 65535))
			}
			// Aim at a configured service in a good share of cases.
			if len(svcs) > 0 && c.Chance("in.aim", 3, 5) {
				sv := svcs[c.Pick("in.aim.svc", len(svcs))]
				if protos, p, ok := sv.keys(); ok {
					proto, port = protos[c.Pick("in.aim.proto", len(protos))], uint16(p)
					if c.Chance("in.aim.swap", 1, 5) { // the sibling protocol on the same port
						switch proto {
						case 6:
							proto = 17
						case 17:
							proto = 6
						}
					}
				}
			}
			rport := uint16(40000)
			repeat := ""
			switch {
			case mode == 1 && len(inHist) > 0:
				h := inHist[c.Pick("in.retry", len(inHist))]
				si, s, proto, port, rport, repeat = h.sender, senders[h.sender], h.proto, h.port, h.rport, "retry"
			case mode == 2 && len(outHist) > 0:
				h := outHist[c.Pick("in.mirror", len(outHist))]
				for i, cand := range senders {
					if cand.party.ID.Addr.IP == h.dst {
						si, s, proto, port, rport, repeat = i, cand, h.proto, h.lp, h.rp, "mirror"
					}
				}
			}
			innerSrc, innerDst := s.party.ID.Addr.IP, V.IP()
			spoof := c.Weighted("in.inner", 10, 2, 2, 1)
			if repeat != "" {
				spoof = 0
			}
			switch spoof {
			case 1: // claims to come from a friend / someone else
				if len(friendIDs) > 0 {
					innerSrc = friendIDs[c.Pick("in.spoof.friend", len(friendIDs))].Addr.IP
				} else {
					innerSrc = knownID.Addr.IP
				}
				if innerSrc == s.party.ID.Addr.IP {
					spoof = 0
				}
			case 2:
				innerDst = P.IP()
			case 3:
				a := V.IP().As16()
				a[15] ^= 1
				innerDst = netip.AddrFrom16(a)
			}
			plen := 60
			if c.Chance("in.short", 1, 10) {
				plen = c.Int("in.len", 1, 43)
			}
			if repeat != "" {
				plen = 60
			}
			pkt := c07TunPacket(innerSrc, innerDst, proto, rport, port)[:plen]
			sealWith := c.Weighted("in.seal", 10, 2, 2)
			if repeat != "" {
				sealWith = 0
			}
			f, err := builder.NewFrameV1(s.party.ID.Addr.IP, V.IP(), frame.NetworkTraffic, nil, pkt, nil)
			if err != nil {
				c.Fatalf("frame: %v", err)
			}
			sealedOK := false
			switch {
			case s.sess == nil:
				// never-seen sender: seals with keys V cannot know.
				other := vnet.NewParty(pID)
				ws := s.party.SessionWith(other)
				_ = vnet.KeyExchange(ws, other.SessionWith(s.party))
				_ = f.Seal(ws)
			case sealWith == 2:
				// not sealed at all: the packet travels in clear in a frame of an
				// encrypted class (what a sender without keys could put on the wire)
			case sealWith == 1 || !s.keyed:
				_ = f.Seal(s.wrongS)
			default:
				if err := f.Seal(s.sess); err != nil {
					c.Fatalf("seal: %v", err)
				}
				sealedOK = true
			}
			data, _ := f.FrameDataWithMargins(0, 0)
			data = append([]byte(nil), data...)
			f.ReturnToPool()

			effProto, effPort := proto, port
			if proto != 6 && proto != 17 {
				effPort = 0
			}
			valid := sealedOK && plen >= 44 && spoof == 0
			svcAdmits := allowed(effProto, effPort, s.party.ID.Addr.IP)
			want := valid && svcAdmits
			remPort := rport
			if proto != 6 && proto != 17 {
				remPort = 0
			}
			inKey := fmt.Sprintf("%s|%d|%d|%d", s.party.ID.Addr.IP, proto, effPort, remPort)
			remembered, isReply := tracked[inKey]
			if valid && !isReply {
				// the router remembers this tuple from now on
				if svcAdmits {
					tracked[inKey] = "allowed"
				} else {
					tracked[inKey] = "denied"
				}
				inHist = append(inHist, inTuple{si, proto, port, rport})
			}
			before := len(V.Tun.SendFrame)
			res := vn.Inject(V, lV, data)
			if res.Panicked {
				c.Fatalf("inbound packet panicked a worker: %v", vn.Panics)
			}
			got := len(V.Tun.SendFrame) > before
			desc := fmt.Sprintf("sender=%s keyed=%v sealed-right=%v proto=%d port=%d inner=%d len=%d", s.kind, s.keyed, sealedOK, proto, port, spoof, plen)
			c.Note("inbound %s -> handed to interface=%v (reference %v)", desc, got, want)
			if isReply && valid {
				// A packet of a tuple the router has seen before. It may be handed over
				// only if the tuple was admitted when it was first seen (by a service,
				// or as the answer to a local packet that was let into the mesh);
				// whether an admitted tuple is still served is not asserted.
				if got && remembered != "allowed" {
					c.Fatalf("packet handed to the local interface on a connection that was refused when first seen (%s, %s) and that no service admits: %s (services %v)", remembered, repeat, desc, schemes)
				}
				c.Class("inbound-on-tracked-connection/" + remembered)
				want = got
			}
			if got != want {
				if got {
					c.Fatalf("packet handed to the local interface although the policy forbids it: %s (services %v)", desc, schemes)
				}
				c.Fatalf("packet that the configuration admits was not handed to the local interface: %s (services %v, handler errors %v)", desc, schemes, res.RouterErrs)
			}
			for len(V.Tun.SendFrame) > 0 {
				g := <-V.Tun.SendFrame
				if string(g.MessageData()) != string(pkt) {
					c.Fatalf("packet handed to the interface differs from the one sent")
				}
				g.ReturnToPool()
			}
			vn.Queue = nil
			for len(V.Tun.SendRaw) > 0 {
				<-V.Tun.SendRaw
			}
			// Non-trivial: verdict depends on protocol or on who sends.
			swapProto := effProto
			switch effProto {
			case 6:
				swapProto = 17
			case 17:
				swapProto = 6
			}
			differs := sealedOK && spoof == 0 && plen >= 44 &&
				(allowed(swapProto, effPort, s.party.ID.Addr.IP) != allowed(effProto, effPort, s.party.ID.Addr.IP) ||
					allowed(effProto, effPort, knownID.Addr.IP) != allowed(effProto, effPort, s.party.ID.Addr.IP))
			c.Eval(fmt.Sprintf("%v|%s|%v|p%d", schemes, s.kind, want, effProto), ntConfig && differs, func() any {
				return map[string]any{"services": schemes, "friends": nf, "packet": desc, "handed_to_interface": got}
			})
			if want {
				c.Class("inbound-admitted")
			} else {
				c.Class("inbound-dropped")
			}
		}
	})
}

// c06Outbound sends one local packet; it returns the connection-tracking key
// (and whether the reference lets the packet into the mesh)
// the router may have created for it ("" if none).
func c06Outbound(c *core.Case, vn *vnet.Net, V *vnet.Node, isolate bool, isFriend func(netip.Addr) bool, friendIDs []*ids.Identity, knownID *ids.Identity, P *vnet.Node, tracked map[string]string, force *c06OutTuple) (trackedKey string, may bool, tup c06OutTuple) {
	src := V.IP()
	if c.Chance("out.src.foreign", 1, 5) {
		src = knownID.Addr.IP
	}
	var dst netip.Addr
	kind := c.Weighted("out.dst", 4, 4, 2, 2, 1)
	switch kind {
	case 0:
		if len(friendIDs) > 0 {
			dst = friendIDs[c.Pick("out.friend", len(friendIDs))].Addr.IP
		} else {
			dst = P.IP()
		}
	case 1:
		dst = core.OneOf(c, "out.nonfriend", P.IP(), knownID.Addr.IP)
	case 2:
		dst = netip.MustParseAddr(core.OneOf(c, "out.outside", "2001:db8::1", "fe80::1", "fc00::1", "::1"))
	case 3:
		dst = netip.MustParseAddr(core.OneOf(c, "out.mcast", "ff02::1", "ff05::2", "ff0e::1234"))
	default:
		dst = netip.MustParseAddr("fd00::1234") // internal range, not the API address
	}
	pkt := c07TunPacket(src, dst, uint8(core.OneOf(c, "out.proto", 6, 17, 58)), 40001, uint16(core.OneOf(c, "out.port", 80, 53, 0, 443)))
	version := c.Weighted("out.version", 12, 1, 1, 1)
	if force != nil {
		// the same local packet as an earlier one
		src, dst, version = V.IP(), force.dst, 0
		lp, rp := force.lp, force.rp
		if force.proto != 6 && force.proto != 17 {
			lp, rp = 40001, 80
		}
		pkt = c07TunPacket(src, dst, force.proto, lp, rp)
	}
	switch version {
	case 1:
		pkt[0] = 4 << 4
	case 2:
		pkt[0] = byte(c.Uniform("out.ver", 0, 15)) << 4
	case 3:
		pkt = pkt[:c.Int("out.len", 0, 43)]
	}
	ps := V.Builder.GetPooledSlice(len(pkt) + 1)
	copy(ps, pkt)
	before := len(vn.Queue)
	if err := V.Rtr.VerifHandleTunPacket(ps[:len(pkt)], true); err != nil {
		c.Fatalf("local packet crashed the tun handler: %v", err)
	}
	emitted := vn.Queue[before:]
	ver := byte(0)
	if len(pkt) > 0 {
		ver = pkt[0] >> 4
	}
	may = len(pkt) >= 44 && ver == 6 && src == V.IP() && m.BaseNetPrefix.Contains(dst) && !dst.IsMulticast() && (!isolate || isFriend(dst))
	desc := fmt.Sprintf("src-own=%v dst=%s kind=%d version=%d len=%d isolate=%v friend=%v", src == V.IP(), dst, kind, ver, len(pkt), isolate, isFriend(dst))
	c.Note("outbound %s -> %d frame(s) emitted (may=%v)", desc, len(emitted), may)
	if len(pkt) >= 44 && ver == 6 {
		proto := pkt[6]
		var lp, rp uint16
		if proto == 6 || proto == 17 {
			lp, rp = uint16(pkt[40])<<8|uint16(pkt[41]), uint16(pkt[42])<<8|uint16(pkt[43])
		}
		trackedKey = fmt.Sprintf("%s|%d|%d|%d", dst, proto, lp, rp)
		tup = c06OutTuple{dst, proto, lp, rp, src == V.IP() && m.BaseNetPrefix.Contains(dst) && !dst.IsMulticast()}
	}
	if trackedKey != "" && tracked[trackedKey] == "allowed" && src == V.IP() {
		// Same 5-tuple as an earlier packet: the remembered verdict applies
		// (e.g. the answer to an admitted inbound connection).
		c.Class("outbound-on-tracked-connection-not-asserted")
		may = true
	}
	for _, e := range emitted {
		if !may {
			c.Fatalf("local packet entered the mesh although it must not: %s (frame type %d to %s)", desc, e.Data[4], netip.AddrFrom16([16]byte(e.Data[32:48])))
		}
		if netip.AddrFrom16([16]byte(e.Data[16:32])) != V.IP() {
			c.Fatalf("frame emitted for a local packet does not carry the router's own address as source")
		}
		if got := netip.AddrFrom16([16]byte(e.Data[32:48])); got != dst {
			c.Fatalf("frame emitted for a local packet goes to %s, the packet was for %s", got, dst)
		}
	}
	if may && len(emitted) > 0 {
		c.Class("outbound-entered-mesh")
	} else if may {
		c.Class("outbound-allowed-but-not-emitted")
	} else {
		c.Class("outbound-blocked")
	}
	c.Eval("out|"+desc, false, nil)
	for _, e := range vn.Queue[before:] {
		_ = e // (frames in flight hold copies; their buffers went back to the builder)
	}
	c17PoolExclusive(c, V.Builder, len(pkt)+1, "after a local packet ("+desc+")")
	vn.Queue = vn.Queue[:before]
	for len(V.Tun.SendRaw) > 0 {
		<-V.Tun.SendRaw
	}
	return trackedKey, may, tup
}

type c06OutTuple struct {
	dst    netip.Addr
	proto  uint8
	lp, rp uint16
	valid  bool // passes the address checks, i.e. the router evaluates the policy for it
}
