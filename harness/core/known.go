package core

import (
	"encoding/json"
	"os"
	"path/filepath"
	"sync"
)

// KnownFile is /verif/known_findings.json.
type KnownFile struct {
	Known []KnownFinding `json:"known"`
	Fixed []string       `json:"fixed"`
}

// KnownFinding is a recorded, unrepaired defect: a specific case class that is
// excluded from generation (and counted) so the search continues behind it.
type KnownFinding struct {
	Property string `json:"property"`
	Name     string `json:"name"`
	What     string `json:"what"`
	Replay   string `json:"replay"`
}

var (
	knownOnce sync.Once
	knownSet  map[string]bool
)

// Known reports whether the named case class of the property is a listed known
// finding (and exclusion is not switched off for replaying it).
func Known(property, name string) bool {
	knownOnce.Do(func() {
		knownSet = map[string]bool{}
		if os.Getenv("VERIF_KNOWN_OFF") != "" {
			return
		}
		data, err := os.ReadFile(filepath.Join(Root(), "known_findings.json"))
		if err != nil {
			return
		}
		var kf KnownFile
		if json.Unmarshal(data, &kf) != nil {
			return
		}
		for _, k := range kf.Known {
			knownSet[k.Property+"/"+k.Name] = true
		}
	})
	return knownSet[property+"/"+name]
}
