package core

import (
	"encoding/json"
	"hash/fnv"
	"os"
	"sort"
	"sync"
	"time"
)

// Recorder accumulates per-process statistics for one property.
type Recorder struct {
	mu          sync.Mutex
	muted       bool
	Property    string               `json:"property"`
	Evaluations int64                `json:"evaluations"`
	Nontrivial  int64                `json:"nontrivial_evaluations"`
	Excluded    map[string]int64     `json:"excluded"`
	Classes     map[string]int64     `json:"classes"`
	Hashes      map[uint64]struct{}  `json:"-"`
	HashList    []uint64             `json:"nontrivial_hashes"`
	Samples     []any                `json:"samples"`
	Tests       map[string]*TestStat `json:"tests"`
	Notes       []string             `json:"notes"`
	Counters    map[string]int64     `json:"counters"`
	sampleSeen  int64
}

// TestStat is the per-test summary.
type TestStat struct {
	WallS      float64 `json:"wall_s"`
	Cases      int     `json:"cases"`
	Exhaustive bool    `json:"exhaustive,omitempty"`
}

var (
	recMu         sync.Mutex
	recorders     = map[string]*Recorder{}
	mutedRecorder = &Recorder{muted: true}
)

func recorderFor(id string) *Recorder {
	recMu.Lock()
	defer recMu.Unlock()
	r := recorders[id]
	if r == nil {
		r = &Recorder{
			Property: id,
			Excluded: map[string]int64{},
			Classes:  map[string]int64{},
			Hashes:   map[uint64]struct{}{},
			Tests:    map[string]*TestStat{},
		}
		recorders[id] = r
	}
	return r
}

const maxSamples = 12
const maxHashes = 400000

// Eval records one evaluated case. key identifies the case shape (distinct
// keys are counted once), nontrivial applies the property's stated rule,
// sample (may be nil) renders the case for the evidence file.
func (c *Case) Eval(key string, nontrivial bool, sample func() any) {
	r := c.rec
	if r == nil || r.muted {
		return
	}
	r.mu.Lock()
	defer r.mu.Unlock()
	r.Evaluations++
	if !nontrivial {
		return
	}
	r.Nontrivial++
	h := fnv.New64a()
	h.Write([]byte(c.test))
	h.Write([]byte{0})
	h.Write([]byte(key))
	hv := h.Sum64()
	_, seen := r.Hashes[hv]
	if !seen && len(r.Hashes) < maxHashes {
		r.Hashes[hv] = struct{}{}
	}
	if sample != nil && !seen {
		r.sampleSeen++
		// Keep the first few and then progressively rarer ones.
		if len(r.Samples) < maxSamples/2 || (len(r.Samples) < maxSamples && r.sampleSeen%97 == 0) {
			r.Samples = append(r.Samples, map[string]any{"test": c.test, "case": sample()})
		}
	}
}

// Class counts one occurrence of a generator/outcome class.
func (c *Case) Class(name string) {
	r := c.rec
	if r == nil || r.muted {
		return
	}
	r.mu.Lock()
	r.Classes[c.test+"/"+name]++
	r.mu.Unlock()
}

// Excluded counts a case skipped because it belongs to a listed known finding.
func (c *Case) Excluded(name string) {
	r := c.rec
	if r == nil || r.muted {
		return
	}
	r.mu.Lock()
	r.Excluded[name]++
	r.mu.Unlock()
}

func (r *Recorder) addWall(test string, d time.Duration, cases int) {
	r.mu.Lock()
	defer r.mu.Unlock()
	ts := r.Tests[test]
	if ts == nil {
		ts = &TestStat{}
		r.Tests[test] = ts
	}
	ts.WallS += d.Seconds()
	ts.Cases += cases
}

func (r *Recorder) setExhaustive(test string, cases int) {
	r.mu.Lock()
	defer r.mu.Unlock()
	if ts := r.Tests[test]; ts != nil {
		ts.Exhaustive = true
	}
}

// AddCount adds to a named counter reported in the evidence.
func AddCount(id, name string, n int64) {
	r := recorderFor(id)
	r.mu.Lock()
	if r.Counters == nil {
		r.Counters = map[string]int64{}
	}
	r.Counters[name] += n
	r.mu.Unlock()
}

// AddNote adds a free-text note to the evidence.
func AddNote(id, note string) {
	r := recorderFor(id)
	r.mu.Lock()
	r.Notes = append(r.Notes, note)
	r.mu.Unlock()
}

// Flush writes all recorders to the file named by VERIF_STATS_OUT (a JSON list).
func Flush() {
	path := os.Getenv("VERIF_STATS_OUT")
	if path == "" {
		return
	}
	recMu.Lock()
	defer recMu.Unlock()
	var list []*Recorder
	ids := make([]string, 0, len(recorders))
	for id := range recorders {
		ids = append(ids, id)
	}
	sort.Strings(ids)
	for _, id := range ids {
		r := recorders[id]
		r.HashList = r.HashList[:0]
		for h := range r.Hashes {
			r.HashList = append(r.HashList, h)
		}
		sort.Slice(r.HashList, func(i, j int) bool { return r.HashList[i] < r.HashList[j] })
		list = append(list, r)
	}
	data, err := json.Marshal(list)
	if err == nil {
		_ = os.WriteFile(path, data, 0o644)
	}
}
