package core

import (
	"encoding/json"
	"flag"
	"fmt"
	"hash/fnv"
	"os"
	"path/filepath"
	"runtime/debug"
	"strconv"
	"strings"
	"sync"
	"testing"
	"time"

	"pgregory.net/rapid"
)

// failure is the panic value used to abort a case from Fatalf.
type failure struct{ msg string }

// TraceFile is the on-disk replay format.
type TraceFile struct {
	Property string   `json:"property"`
	Test     string   `json:"test"`
	Message  string   `json:"message"`
	Notes    []string `json:"notes,omitempty"`
	Trace    []Entry  `json:"trace"`
}

// Fatalf reports a violation of the property on this case and aborts it.
func (c *Case) Fatalf(format string, args ...any) {
	panic(failure{msg: fmt.Sprintf(format, args...)})
}

// Tier returns "quick" or "thorough".
func Tier() string {
	if os.Getenv("VERIF_TIER") == "thorough" {
		return "thorough"
	}
	return "quick"
}

// Thorough reports whether the thorough tier is running.
func Thorough() bool { return Tier() == "thorough" }

// Seed returns VERIF_SEED (default 0).
func Seed() int64 {
	v, _ := strconv.ParseInt(os.Getenv("VERIF_SEED"), 10, 64)
	return v
}

// Shard returns this process's shard index and the shard count.
func Shard() (int, int) {
	parts := strings.Split(os.Getenv("VERIF_SHARD"), "/")
	if len(parts) != 2 {
		return 0, 1
	}
	i, _ := strconv.Atoi(parts[0])
	k, _ := strconv.Atoi(parts[1])
	if k < 1 {
		k = 1
	}
	return i, k
}

// Root returns the /verif directory.
func Root() string {
	if r := os.Getenv("VERIF_ROOT"); r != "" {
		return r
	}
	return "/verif"
}

// Opts configures one property run.
type Opts struct {
	ID       string // property id, e.g. "C12"
	Quick    int    // rapid cases in the quick tier (whole run, divided over shards)
	Thorough int    // rapid cases in the thorough tier
}

func scaled(n int) int {
	if s := os.Getenv("VERIF_SCALE"); s != "" {
		if f, err := strconv.ParseFloat(s, 64); err == nil && f > 0 {
			n = int(float64(n) * f)
		}
	}
	_, k := Shard()
	n = (n + k - 1) / k
	if n < 1 {
		n = 1
	}
	return n
}

func rapidSeed(test string) uint64 {
	i, _ := Shard()
	h := fnv.New64a()
	fmt.Fprintf(h, "%s|%d|%d", test, Seed(), i)
	s := h.Sum64() >> 1
	if s == 0 {
		s = 1
	}
	return s
}

var failMu sync.Mutex

func writeFailure(opts Opts, test string, c *Case, msg string) string {
	failMu.Lock()
	defer failMu.Unlock()
	dir := os.Getenv("VERIF_FAIL_DIR")
	if dir == "" {
		dir = filepath.Join(Root(), "out", opts.ID)
	}
	_ = os.MkdirAll(dir, 0o755)
	i, _ := Shard()
	path := filepath.Join(dir, fmt.Sprintf("%s-seed%d-shard%d.json", strings.ReplaceAll(test, "/", "__"), Seed(), i))
	tf := TraceFile{Property: opts.ID, Test: test, Message: msg, Notes: c.notes, Trace: c.trace}
	data, _ := json.MarshalIndent(tf, "", " ")
	_ = os.WriteFile(path, data, 0o644)
	return path
}

// CodeFault is a panic value harness utilities use when the code under test
// breaks a contract the harness relies on (e.g. the frame builder hands out a
// buffer smaller than requested). It fails the case like Fatalf does.
type CodeFault struct{ Msg string }

func (f CodeFault) Error() string { return f.Msg }

// runBody executes the property body on the case, converting Fatalf and
// stray panics into a message. rapid-internal control panics pass through.
func runBody(c *Case, prop func(*Case)) (msg string, failed bool) {
	defer func() {
		if r := recover(); r != nil {
			switch v := r.(type) {
			case failure:
				msg, failed = v.msg, true
			case CodeFault:
				msg, failed = v.Msg, true
			default:
				tn := fmt.Sprintf("%T", r)
				if strings.HasPrefix(tn, "rapid.") {
					panic(r)
				}
				stack := string(debug.Stack())
				if harnessPanic(stack) {
					// A bug of the harness itself is an infrastructure problem, never a verdict.
					fmt.Printf("VERIF-HARNESS-ERROR panic in harness code: %v\n%s\n", r, stack)
					os.Exit(3)
				}
				msg, failed = fmt.Sprintf("unrecovered panic in code under test: %v\n%s", r, stack), true
			}
		}
	}()
	prop(c)
	return "", false
}

// Run runs a property: replay mode if VERIF_REPLAY names a trace for this
// test, otherwise rapid-driven search with the tier's case count.
func Run(t *testing.T, opts Opts, prop func(*Case)) {
	t.Helper()
	test := t.Name()
	rec := recorderFor(opts.ID)

	if path := os.Getenv("VERIF_REPLAY"); path != "" {
		data, err := os.ReadFile(path)
		if err != nil {
			t.Fatalf("read replay: %v", err)
		}
		var tf TraceFile
		if err := json.Unmarshal(data, &tf); err != nil {
			t.Fatalf("parse replay: %v", err)
		}
		if tf.Test != test {
			t.Skipf("replay is for %s", tf.Test)
		}
		tb := &traceBackend{entries: tf.Trace}
		c := &Case{b: tb, rec: rec, test: test, mode: "replay"}
		msg, failed := runBody(c, prop)
		for _, d := range tb.drift {
			fmt.Printf("VERIF-REPLAY-DRIFT %s\n", d)
		}
		if failed {
			fmt.Printf("VERIF-FAIL test=%s trace=%s\n%s\n%s\n", test, path, msg, c.Notes())
			t.Fatalf("replay %s violates the property: %s", path, msg)
		}
		return
	}

	n := opts.Quick
	if Thorough() {
		n = opts.Thorough
	}
	if n <= 0 {
		t.Skip("no cases configured for this tier")
	}
	n = scaled(n)
	_ = flag.Set("rapid.checks", strconv.Itoa(n))
	_ = flag.Set("rapid.seed", strconv.FormatUint(rapidSeed(test), 10))
	_ = flag.Set("rapid.nofailfile", "true")
	_ = os.RemoveAll("testdata/rapid")

	var lastPath, lastMsg string
	start := time.Now()
	defer func() {
		// rapid.Check ends a failing test with FailNow (Goexit), so report here.
		rec.addWall(test, time.Since(start), n)
		if t.Failed() && lastPath != "" {
			fmt.Printf("VERIF-FAIL test=%s trace=%s\n%s\n", test, lastPath, firstLines(lastMsg, 40))
		}
	}()
	rapid.Check(t, func(rt *rapid.T) {
		c := &Case{b: &rapidBackend{t: rt}, rec: rec, test: test, mode: "rapid"}
		msg, failed := runBody(c, prop)
		if failed {
			lastPath, lastMsg = writeFailure(opts, test, c, msg), msg
			rt.Fatalf("%s", msg)
		}
	})
}

// harnessPanic reports whether the innermost non-runtime frame of a panic stack
// belongs to the harness (module "verif") rather than to the code under test.
func harnessPanic(stack string) bool {
	lines := strings.Split(stack, "\n")
	seenPanic := false
	for _, l := range lines {
		if strings.HasPrefix(l, "\t") || l == "" {
			continue
		}
		if strings.HasPrefix(l, "panic(") {
			seenPanic = true
			continue
		}
		if !seenPanic {
			continue
		}
		if strings.HasPrefix(l, "runtime.") || strings.HasPrefix(l, "runtime/") {
			continue
		}
		return strings.HasPrefix(l, "verif/")
	}
	return false
}

func firstLines(s string, n int) string {
	lines := strings.Split(s, "\n")
	if len(lines) > n {
		lines = append(lines[:n], "...")
	}
	return strings.Join(lines, "\n")
}

// Exhaust enumerates the whole choice tree of prop depth-first (every draw
// must have a small finite range). It stops with an error if the tree has more
// than limit leaves. Returns the number of cases run.
func Exhaust(t *testing.T, opts Opts, limit int, prop func(*Case)) int {
	t.Helper()
	test := t.Name()
	rec := recorderFor(opts.ID)
	if path := os.Getenv("VERIF_REPLAY"); path != "" {
		// Replay of an exhaustively found failure goes through the trace backend.
		Run(t, opts, prop)
		return 0
	}
	i, k := Shard()
	var prefix []uint64
	count := 0
	start := time.Now()
	for {
		b := &dfsBackend{prefix: prefix}
		c := &Case{b: b, rec: rec, test: test, mode: "dfs"}
		mine := count%k == i
		var msg string
		var failed bool
		if mine {
			msg, failed = runBody(c, prop)
		} else {
			// Still has to execute to learn the tree shape; do so without
			// statistics by running on a muted recorder.
			c.rec = mutedRecorder
			msg, failed = runBody(c, prop)
			failed = false
		}
		if failed {
			path := writeFailure(opts, test, c, msg)
			fmt.Printf("VERIF-FAIL test=%s trace=%s\n%s\n%s\n", test, path, firstLines(msg, 40), c.Notes())
			t.Fatalf("exhaustive case %d violates the property: %s", count, msg)
		}
		count++
		if count > limit {
			t.Fatalf("exhaustive enumeration exceeded %d cases; narrow the space", limit)
		}
		next, ok := b.advance()
		if !ok {
			break
		}
		prefix = next
	}
	rec.addWall(test, time.Since(start), count)
	rec.setExhaustive(test, count)
	return count
}
