// Package core is the common machinery of the verification harness: the
// choice source every property draws from (rapid-backed, trace-backed replay,
// or bounded exhaustive DFS), failure capture into replay files, and the
// per-run statistics that become the evidence file.
package core

import (
	"encoding/hex"
	"fmt"
	"strings"

	"pgregory.net/rapid"
)

// Entry is one recorded choice.
type Entry struct {
	L string `json:"l"`           // label
	V int64  `json:"v"`           // integer value (or length for raw bytes)
	B string `json:"b,omitempty"` // hex bytes for raw byte draws
	K string `json:"k,omitempty"` // "b" for raw bytes
}

// backend produces raw choices.
type backend interface {
	// intn returns a value in [0, n) for n >= 1. biased backends may prefer small values.
	intn(label string, n uint64, uniform bool) uint64
	// raw returns between min and max arbitrary bytes.
	raw(label string, min, max int) []byte
}

// ---------- rapid backend ----------

type rapidBackend struct{ t *rapid.T }

func splitmix(x uint64) uint64 {
	x += 0x9E3779B97F4A7C15
	x = (x ^ (x >> 30)) * 0xBF58476D1CE4E5B9
	x = (x ^ (x >> 27)) * 0x94D049BB133111EB
	return x ^ (x >> 31)
}

func (b *rapidBackend) intn(label string, n uint64, uniform bool) uint64 {
	if n <= 1 {
		return 0
	}
	if uniform {
		x := rapid.Uint64().Draw(b.t, label)
		return splitmix(x) % n
	}
	return rapid.Uint64Range(0, n-1).Draw(b.t, label)
}

func (b *rapidBackend) raw(label string, min, max int) []byte {
	return rapid.SliceOfN(rapid.Byte(), min, max).Draw(b.t, label)
}

// ---------- trace backend (replay) ----------

type traceBackend struct {
	entries []Entry
	pos     int
	drift   []string
}

func (b *traceBackend) next(label string) *Entry {
	if b.pos >= len(b.entries) {
		b.drift = append(b.drift, fmt.Sprintf("trace exhausted at draw %d (%s)", b.pos, label))
		b.pos++
		return nil
	}
	e := &b.entries[b.pos]
	if e.L != label {
		b.drift = append(b.drift, fmt.Sprintf("draw %d: label %q, trace has %q", b.pos, label, e.L))
	}
	b.pos++
	return e
}

func (b *traceBackend) intn(label string, n uint64, _ bool) uint64 {
	e := b.next(label)
	if e == nil || n <= 1 {
		return 0
	}
	v := uint64(e.V)
	if v >= n {
		b.drift = append(b.drift, fmt.Sprintf("draw %d (%s): value %d out of range %d", b.pos-1, label, v, n))
		v %= n
	}
	return v
}

func (b *traceBackend) raw(label string, min, max int) []byte {
	e := b.next(label)
	if e == nil {
		return make([]byte, min)
	}
	data, _ := hex.DecodeString(e.B)
	if len(data) < min {
		data = append(data, make([]byte, min-len(data))...)
	}
	if len(data) > max {
		data = data[:max]
	}
	return data
}

// ---------- DFS backend (bounded exhaustive enumeration) ----------

type dfsBackend struct {
	prefix []uint64 // choices to replay
	arity  []uint64 // arity observed at each position in this run
	taken  []uint64
}

func (b *dfsBackend) intn(_ string, n uint64, _ bool) uint64 {
	if n == 0 {
		n = 1
	}
	pos := len(b.taken)
	var v uint64
	if pos < len(b.prefix) {
		v = b.prefix[pos]
		if v >= n {
			v = n - 1
		}
	}
	b.taken = append(b.taken, v)
	b.arity = append(b.arity, n)
	return v
}

func (b *dfsBackend) raw(_ string, min, _ int) []byte {
	return make([]byte, min)
}

// advance computes the next prefix in depth-first order; false when done.
func (b *dfsBackend) advance() ([]uint64, bool) {
	for i := len(b.taken) - 1; i >= 0; i-- {
		if b.taken[i]+1 < b.arity[i] {
			next := make([]uint64, i+1)
			copy(next, b.taken[:i])
			next[i] = b.taken[i] + 1
			return next, true
		}
	}
	return nil, false
}

// ---------- Case: what a property body sees ----------

// Case is one generated case: a choice source plus failure and statistics
// reporting.
type Case struct {
	b     backend
	trace []Entry
	rec   *Recorder
	test  string
	mode  string
	notes []string
}

func (c *Case) record(label string, v int64) {
	c.trace = append(c.trace, Entry{L: label, V: v})
}

// Int draws an integer in [lo, hi] (prefers small values, shrinks towards lo).
func (c *Case) Int(label string, lo, hi int) int {
	if hi < lo {
		panic(fmt.Sprintf("core: Int(%s): empty range [%d,%d]", label, lo, hi))
	}
	v := c.b.intn(label, uint64(hi-lo)+1, false)
	c.record(label, int64(v))
	return lo + int(v)
}

// Uniform draws an integer in [lo, hi] uniformly (shrinks poorly).
func (c *Case) Uniform(label string, lo, hi int) int {
	if hi < lo {
		panic(fmt.Sprintf("core: Uniform(%s): empty range [%d,%d]", label, lo, hi))
	}
	v := c.b.intn(label, uint64(hi-lo)+1, true)
	c.record(label, int64(v))
	return lo + int(v)
}

// Uint64 draws a uniformly distributed 64-bit value.
func (c *Case) Uint64(label string) uint64 {
	hi := c.b.intn(label+".hi", 1<<32, true)
	lo := c.b.intn(label+".lo", 1<<32, true)
	c.record(label+".hi", int64(hi))
	c.record(label+".lo", int64(lo))
	return hi<<32 | lo
}

// Pick draws an index in [0, n).
func (c *Case) Pick(label string, n int) int {
	if n <= 0 {
		panic(fmt.Sprintf("core: Pick(%s): n=%d", label, n))
	}
	return c.Int(label, 0, n-1)
}

// Bool draws a boolean (false is the shrink target).
func (c *Case) Bool(label string) bool {
	return c.Int(label, 0, 1) == 1
}

// Chance returns true with probability num/den (uniform draw).
func (c *Case) Chance(label string, num, den int) bool {
	return c.Uniform(label, 0, den-1) >= den-num
}

// Weighted draws an index with the given relative weights. Index 0 is the
// shrink target.
func (c *Case) Weighted(label string, weights ...int) int {
	total := 0
	for _, w := range weights {
		total += w
	}
	if total <= 0 {
		panic("core: Weighted: no weight")
	}
	v := c.Uniform(label, 0, total-1)
	// Map the top of the range to index 0 so that... keep simple: cumulative.
	for i, w := range weights {
		if v < w {
			return i
		}
		v -= w
	}
	return len(weights) - 1
}

// OneOf draws one of the given values.
func OneOf[T any](c *Case, label string, vals ...T) T {
	return vals[c.Pick(label, len(vals))]
}

// Bytes returns n pseudo-random bytes expanded from one drawn seed. Cheap for
// big payloads; content is a pure function of the seed.
func (c *Case) Bytes(label string, n int) []byte {
	seed := c.Uint64(label)
	out := make([]byte, n)
	// Mix in the label so that two draws with equal seeds (0 is a frequent
	// value and the shrink target) still give unrelated contents.
	x := seed
	for i := 0; i < len(label); i++ {
		x = splitmix(x ^ uint64(label[i]))
	}
	for i := 0; i < n; i += 8 {
		x = splitmix(x)
		for j := 0; j < 8 && i+j < n; j++ {
			out[i+j] = byte(x >> (8 * j))
		}
	}
	return out
}

// RawBytes draws between min and max bytes individually (for parser inputs,
// every byte shrinks).
func (c *Case) RawBytes(label string, min, max int) []byte {
	data := c.b.raw(label, min, max)
	c.trace = append(c.trace, Entry{L: label, K: "b", V: int64(len(data)), B: hex.EncodeToString(data)})
	return data
}

// Note attaches a free-text line to the case (shown with a failure).
func (c *Case) Note(format string, args ...any) {
	if len(c.notes) < 400 {
		c.notes = append(c.notes, fmt.Sprintf(format, args...))
	}
}

// Notes returns the notes collected so far.
func (c *Case) Notes() string { return strings.Join(c.notes, "\n") }

// Mode reports the backend kind: "rapid", "replay" or "dfs".
func (c *Case) Mode() string { return c.mode }
