// Command genids generates the committed pool of test identities
// (/verif/testdata/identities.json). Run once; the pool is test key material.
package main

import (
	"context"
	"encoding/json"
	"fmt"
	"net/netip"
	"os"

	"github.com/mycoria/mycoria/m"
)

type entry struct {
	Group string           `json:"group"`
	Addr  m.AddressStorage `json:"addr"`
}

func main() {
	type spec struct {
		group  string
		prefix string
		n      int
		easing uint64
	}
	specs := []spec{
		{"eu", "fd10::/12", 20, 0},
		{"eu-easing", "fd10::/12", 6, 4000},
		{"eu-region", "fd1f::/16", 8, 4000},
		{"na", "fd40::/12", 8, 0},
		{"ea", "fd70::/12", 6, 0},
		{"af", "fd20::/12", 4, 0},
		{"roaming", "fd00::/16", 6, 4000},
		{"org", "fd01::/16", 4, 4000},
		{"experiment", "fd0f::/16", 4, 4000},
	}
	// One country prefix whose base equals its region base, one elsewhere.
	for _, cc := range []string{"AT", "DE", "FR", "JP"} {
		if p, err := m.GetCountryPrefix(cc); err == nil {
			specs = append(specs, spec{"country-" + cc, p.String(), 4, 20000})
		}
	}
	var out []entry
	for _, s := range specs {
		p := netip.MustParsePrefix(s.prefix)
		for i := 0; i < s.n; i++ {
			addr, _, err := m.GenerateRoutableAddress(context.Background(), []netip.Prefix{p}, nil, s.easing)
			if err != nil {
				fmt.Fprintln(os.Stderr, "generate", s.group, err)
				os.Exit(1)
			}
			out = append(out, entry{Group: s.group, Addr: addr.Store()})
		}
	}
	for i := 0; i < 8; i++ {
		addr, _, err := m.GeneratePrivacyAddress(context.Background())
		if err != nil {
			fmt.Fprintln(os.Stderr, "generate privacy", err)
			os.Exit(1)
		}
		out = append(out, entry{Group: "privacy", Addr: addr.Store()})
	}
	data, _ := json.MarshalIndent(out, "", " ")
	if err := os.WriteFile(os.Args[1], data, 0o644); err != nil {
		fmt.Fprintln(os.Stderr, err)
		os.Exit(1)
	}
	fmt.Println("wrote", len(out), "identities")
}
