// Command genids16 generates an additional, append-only group of test
// identities (/verif/testdata/identities_privacy16.json): one privacy-address
// router ("hub") and privacy-address routers inside the hub's /16 - the only
// privacy addresses a router with a privacy address keeps routes for, i.e. can
// have links with. Among them: two whose address derives no switch label and
// two whose addresses derive the same switch label.
package main

import (
	"context"
	"encoding/json"
	"fmt"
	"os"

	"github.com/mycoria/mycoria/m"
)

type entry struct {
	Group string           `json:"group"`
	Addr  m.AddressStorage `json:"addr"`
}

func main() {
	ctx := context.Background()
	hub, _, err := m.GeneratePrivacyAddress(ctx)
	if err != nil {
		panic(err)
	}
	p16, _ := hub.IP.Prefix(16)
	var normal, nolabel, collide []*m.Address
	byLabel := map[m.SwitchLabel]*m.Address{}
	hubLabel, _ := m.DeriveSwitchLabelFromIP(hub.IP)
	gens := 0
	for len(nolabel) < 2 || len(collide) < 2 || len(byLabel) < 8 {
		a, _, err := m.GeneratePrivacyAddress(ctx)
		if err != nil {
			panic(err)
		}
		gens++
		if !p16.Contains(a.IP) {
			continue
		}
		l, ok := m.DeriveSwitchLabelFromIP(a.IP)
		switch {
		case !ok:
			if len(nolabel) < 2 {
				nolabel = append(nolabel, a)
			}
		case l == hubLabel:
		case byLabel[l] != nil && len(collide) == 0:
			collide = append(collide, byLabel[l], a)
		default:
			if byLabel[l] == nil {
				byLabel[l] = a
			}
		}
	}
	// normal ones: any four with distinct labels not used by the colliding pair
	cl, _ := m.DeriveSwitchLabelFromIP(collide[0].IP)
	for l, a := range byLabel {
		if l != cl && len(normal) < 4 {
			normal = append(normal, a)
		}
	}
	_ = normal
	var out []entry
	out = append(out, entry{"privacy16-hub", hub.Store()})
	for _, a := range normal[:4] {
		out = append(out, entry{"privacy16", a.Store()})
	}
	for _, a := range nolabel {
		out = append(out, entry{"privacy16-nolabel", a.Store()})
	}
	for _, a := range collide {
		out = append(out, entry{"privacy16-collide", a.Store()})
	}
	data, _ := json.MarshalIndent(out, "", " ")
	if err := os.WriteFile(os.Args[1], data, 0o644); err != nil {
		panic(err)
	}
	fmt.Println("wrote", len(out), "identities after", gens, "generated addresses")
}
