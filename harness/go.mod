module verif

go 1.26.8

require (
	github.com/fxamacker/cbor/v2 v2.9.2
	github.com/miekg/dns v1.1.72
	github.com/mycoria/crop v0.3.1
	github.com/mycoria/mycoria v0.0.0
	github.com/zeebo/blake3 v0.2.4
	golang.org/x/crypto v0.54.0
	pgregory.net/rapid v1.3.0
)

require (
	github.com/google/btree v1.1.3 // indirect
	github.com/klauspost/cpuid/v2 v2.4.0 // indirect
	github.com/leekchan/gtf v0.0.0-20190214083521-5fba33c5b00b // indirect
	github.com/mdlayher/ndp v1.1.0 // indirect
	github.com/mitchellh/copystructure v1.2.0 // indirect
	github.com/mitchellh/reflectwalk v1.0.2 // indirect
	github.com/mr-tron/base58 v1.3.0 // indirect
	github.com/tevino/abool v1.2.0 // indirect
	github.com/vishvananda/netlink v1.3.1 // indirect
	github.com/vishvananda/netns v0.0.5 // indirect
	github.com/x448/float16 v0.8.4 // indirect
	go4.org/netipx v0.0.0-20231129151722-fdeea329fbba // indirect
	golang.org/x/exp v0.0.0-20260709172345-9ea1abe57597 // indirect
	golang.org/x/net v0.57.0 // indirect
	golang.org/x/sys v0.47.0 // indirect
	golang.org/x/text v0.40.0 // indirect
	golang.org/x/time v0.15.0 // indirect
	golang.zx2c4.com/wireguard v0.0.0-20260522210424-ecfc5a8d5446 // indirect
	gopkg.in/yaml.v3 v3.0.1
	gvisor.dev/gvisor v0.0.0-20260709014902-8ed0c00a3f90 // indirect
)

replace github.com/mycoria/mycoria => /repo
