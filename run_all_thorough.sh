#!/bin/bash
# Runs every registered thorough check once (sequentially; each uses up to 16 shards).
cd "$(dirname "$0")"
seed=${1:-3}
shift
ids=${@:-C12 C17 C03 C11 C19 C02 C15 C14 C01 C06 C08 C07 C13 C10 C09 C04 C05 C16 C18 C20}
for id in $ids; do
  start=$(date +%s)
  VERIF_SEED=$seed ./check $id --tier thorough 2>&1 | grep -E "^(OK|VIOLATION|INCONCLUSIVE|KNOWN-FINDING|BUILD FAILED|VERIF-FAIL)" | cut -c1-400
  echo "   ($id took $(( $(date +%s) - start )) s)"
done
