#!/bin/bash
# For every regression trace: revert the fix it belongs to (in /repo, uncommitted), replay the
# trace - it must report a violation - and restore /repo. Lists traces that lost their teeth.
# usage: ./revalidate_replays.sh   (needs a clean /repo; do not run checks concurrently)
cd /verif
[ -z "$(git -C /repo status --short)" ] || { echo "/repo not clean"; exit 2; }
while read id file commit; do
  [ -z "$id" ] && continue
  if [ "$commit" = 56472db ]; then
    # the revert conflicts with later repairs; seeded change C03-7 re-introduces the same slip
    git -C /repo apply /verif/seeded/C03-7/patch.diff
  elif ! git -C /repo revert --no-commit $commit >/dev/null 2>&1; then
    git -C /repo revert --abort >/dev/null 2>&1; git -C /repo reset -q --hard HEAD
    echo "SKIP   $id $file (revert of $commit conflicts)"; continue
  fi
  out=$(./check $id --replay replays/$id/$file 2>&1 | tail -1)
  git -C /repo reset -q --hard HEAD
  case "$out" in
    VIOLATION*) echo "ok     $id $file" ;;
    *) echo "STALE  $id $file ($commit): $out" ;;
  esac
done <<LIST
C01 revert-df9379c-TestC01Network.json df9379c
C01 revert-e7034a9-TestC01Network.json e7034a9
C01 revert-e7034a9-TestC01Pure.json e7034a9
C01 short-private-key-in-stored-identity-panics.json 4962988
C03 d2-frame-replay-after-newer.json 29d39e0
C03 d2-handler-replay-after-newer.json 29d39e0
C03 d2-linkframe-replay-after-newer.json 29d39e0
C04 d23-keys-lost-during-link-setup-nil-key-panic.json eecb382
C05 d10-tiny-link-frame-panics-reader.json 622fc18
C05 d21-unauthenticated-frame-near-wrap-rolls-the-in-key.json 76f39b8
C06 d3-udp-service-opens-tcp.json aa5d824
C06 d5-double-return-to-pool-on-spoofed-inner-address.json 2f63c46
C07 d1-unknown-hash-name-in-first-contact-ping-header-panics.json e7034a9
C09 ping-header-without-easing-star3.json df9379c
C09 revert-47d55bd.json 47d55bd
C09 revert-f41edae.json f41edae
C09 d22-appendix-grown-into-the-link-margin.json 5172ac5
C10 return-label-written-past-short-switch-block.json 6acf0e2
C11 d11-clean-interleaved-prefixes-same-base.json ebc9784
C11 d11b-clean-limit-looked-up-by-prefix-base.json 7c49f1d
C12 d4-uint8-overflow-buildblocks-panic.json c41abc8
C14 d7-simultaneous-hello-key-mismatch-random.json e4a2480
C14 d7-simultaneous-hello-key-mismatch.json e4a2480
C15 d13-priority-reset-conflates-directions.json 56472db
C15 d21-damaged-copy-near-wrap-rolls-the-in-key.json 76f39b8
C16 d15-cross-connect-nil-key-exchange-panic.json cc6cbb2
C17 d14-stale-recvlink-on-recycled-struct.json cf34e24
C17 d6-clone-above-600-bytes-panics.json f41edae
C17 d6-clone-appendix-growth-across-tier-refused.json 47d55bd
C18 d8-state-file-truncated-before-write.json 231b422
C20 d9-newgroup-nil-module-panic.json 7e8626d
LIST
