#!/bin/sh
# try_seed.sh <ID-i> <CHECK> [seeds...]: run a check with a seeded change applied to /repo, then undo it.
d=/verif/seeded/$1; chk=$2; shift 2
[ -z "$(git -C /repo status --short)" ] || { echo "/repo not clean"; exit 2; }
git -C /repo apply $d/patch.diff || exit 2
for s in ${@:-1}; do
  VERIF_SEED=$s /verif/check $chk ${TIER:+--tier $TIER} 2>&1 | grep -E "^(OK|VIOLATION|INCONCLUSIVE|KNOWN)" | cut -c1-200
done
git -C /repo checkout -- .
