#!/usr/bin/env python3
"""Confirms a seeded breaking change and runs the registered check against it.

  seeded_eval.py <ID> <i> <demo-file> <pkgdir> <run-regex> [--tags T] [--seeds "0 1"] [--also C03,C05]

1. In a scratch worktree of /repo HEAD (/var/tmp/seedchk): apply patch.diff, build, run the
   existing suite, copy the demo into <pkgdir> (renamed *_test.go) and run it -> must FAIL;
   un-apply the patch -> demo must PASS.
2. Apply the patch to /repo, run ./check <ID> (quick) at the given seeds (and the checks in
   --also), record exit codes, undo with git checkout.
3. Copy patch, demo and notes to /verif/seeded/<ID>-<i>/ and write meta.json.
"""
import argparse, json, os, shutil, subprocess, sys, time

ENV = dict(os.environ, GOFLAGS="-mod=mod", GOPROXY="off", GOSUMDB="off", GOTOOLCHAIN="local")
SCR = "/var/tmp/seedchk"


def sh(cmd, cwd=None, timeout=1800):
    p = subprocess.run(cmd, cwd=cwd, env=ENV, shell=True, stdout=subprocess.PIPE, stderr=subprocess.STDOUT, text=True, timeout=timeout)
    return p.returncode, p.stdout


def main():
    ap = argparse.ArgumentParser()
    ap.add_argument("id"); ap.add_argument("i"); ap.add_argument("demo"); ap.add_argument("pkg"); ap.add_argument("run")
    ap.add_argument("--tags", default=""); ap.add_argument("--seeds", default="0 1"); ap.add_argument("--also", default="")
    ap.add_argument("--suite-retries", type=int, default=2)
    ap.add_argument("--extra", default="", help="comma separated helper files the demo needs, copied next to it")
    ap.add_argument("--tier", default="quick")
    ap.add_argument("--phase", default="both", choices=["both", "confirm", "check", "keep"])
    ap.add_argument("--src-root", default="/tmp/seed", help="where the sub-agents' worktrees are (<root>/<ID>/out/<i>/)")
    a = ap.parse_args()
    src = "%s/%s/out/%s" % (a.src_root, a.id, a.i)
    patch = os.path.join(src, "patch.diff")
    res = {"property": a.id, "change": a.i, "ran_at": time.strftime("%Y-%m-%dT%H:%M:%SZ", time.gmtime())}
    global SCR
    SCR = "/var/tmp/seedchk-%s-%s" % (a.id, a.i)
    dstdir = "/verif/seeded/%s-%s" % (a.id, a.i)
    os.makedirs(dstdir, exist_ok=True)
    confirm_file = os.path.join(dstdir, ".confirm.json")
    if a.phase == "check":
        if not os.path.exists(patch):
            # the agents' scratch worktrees are gone: use the kept copy
            patch = os.path.join(dstdir, "patch.diff")
            src = dstdir
        if os.path.exists(confirm_file):
            res.update(json.load(open(confirm_file)))
        else:
            # re-run of the check phase: reuse the confirmation recorded in meta.json
            old = json.load(open(os.path.join(dstdir, "meta.json")))["what_was_run"]
            res.update({k: old[k] for k in old if k not in ("check_runs", "detected_by", "ran_at")})
            res["earlier_check_runs"] = old.get("earlier_check_runs", []) + [{"ran_at": old.get("ran_at"), "runs": old.get("check_runs")}]
        demo_name = res["demo_name"]; cmd = res["demo_cmd"]
        extras = [x for x in a.extra.split(",") if x]
        return check_phase(a, res, src, patch, dstdir, demo_name, cmd, extras)
    if not os.path.isdir(SCR):
        rc, out = sh("git -C /repo worktree add -q --detach %s HEAD" % SCR)
        if rc: print(out); sys.exit(2)
    sh("git checkout -q --detach $(git -C /repo rev-parse HEAD) && git checkout -- . && git clean -fdq", cwd=SCR)
    rc, out = sh("git apply %s" % patch, cwd=SCR)
    if rc: print("patch does not apply:", out); sys.exit(2)
    rc, out = sh("go1.26.8 build ./...", cwd=SCR)
    res["build_ok"] = rc == 0
    if rc: print(out[-2000:])
    suite_ok = False
    for _ in range(a.suite_retries + 1):
        rc, out = sh("go1.26.8 test -vet=off -count=1 ./...", cwd=SCR)
        if rc == 0:
            suite_ok = True; break
        failed = [l for l in out.splitlines() if l.startswith("--- FAIL")]
        res.setdefault("suite_failures_seen", []).extend(failed)
        # m.TestTable and mgr.TestTaskRepeat are flaky on the pinned tree as well.
        if not all(("TestTable" in f or "TestTask" in f) for f in failed):
            break
    res["existing_suite_passes_with_change"] = suite_ok
    demo_name = os.path.basename(a.demo).replace(".txt", "").lstrip("_")
    if not demo_name.endswith("_test.go"):
        demo_name = demo_name.replace(".go", "_test.go")
    dst = os.path.join(SCR, a.pkg, demo_name)
    shutil.copy(os.path.join(src, a.demo), dst)
    extras = [x for x in a.extra.split(",") if x]
    for x in extras:
        xn = os.path.basename(x).replace(".txt", "").lstrip("_")
        shutil.copy(os.path.join(src, x), os.path.join(SCR, a.pkg, xn))
    tags = ("-tags %s " % a.tags) if a.tags else ""
    cmd = "go1.26.8 test %s-vet=off -count=1 -run '%s' ./%s/" % (tags, a.run, a.pkg)
    rc1, out1 = sh(cmd, cwd=SCR)
    res["demo_cmd"] = cmd
    res["demo_fails_with_change"] = rc1 != 0
    sh("git apply -R %s" % patch, cwd=SCR)
    rc2, out2 = sh(cmd, cwd=SCR)
    res["demo_passes_without_change"] = rc2 == 0
    sh("git checkout -- . && git clean -fdq", cwd=SCR)
    print("confirm: build=%s suite=%s demo_fails_with=%s demo_passes_without=%s" % (res["build_ok"], suite_ok, rc1 != 0, rc2 == 0))
    if rc2 != 0:
        print(out2[-1500:])

    res["demo_name"] = demo_name
    sh("git -C /repo worktree remove --force %s" % SCR)
    json.dump(res, open(confirm_file, "w"), indent=1)
    if a.phase == "confirm":
        return
    if a.phase == "keep" and not (res["build_ok"] and suite_ok and res["demo_fails_with_change"] and res["demo_passes_without_change"]):
        print("NOT CONFIRMED - not kept"); return
    return check_phase(a, res, src, patch, dstdir, demo_name, cmd, extras)


def check_phase(a, res, src, patch, dstdir, demo_name, cmd, extras):
    # 2. our checks against the change ("keep": only store the confirmed change, the
    #    checks are run by seeded_par.py in scratch worktrees)
    runs = []
    if a.phase != "keep":
        rc, out = sh("git -C /repo status --short")
        if out.strip():
            print("/repo not clean:", out); sys.exit(2)
        rc, out = sh("git -C /repo apply %s" % patch)
        if rc: print("apply to /repo failed", out); sys.exit(2)
    try:
      if a.phase != "keep":
        for cid in [a.id] + [x for x in a.also.split(",") if x]:
            for s in a.seeds.split():
                t0 = time.time()
                rc, out = sh("VERIF_SEED=%s ./check %s --tier %s" % (s, cid, a.tier), cwd="/verif", timeout=3600)
                line = [l for l in out.splitlines() if l.startswith(("VIOLATION", "OK ", "INCONCLUSIVE"))]
                runs.append({"check": cid, "seed": int(s), "exit": rc, "wall_s": round(time.time() - t0, 1), "line": (line[0] if line else out[-300:])})
                print("  check %s seed %s -> exit %d (%s)" % (cid, s, rc, (line[0] if line else "")[:160]))
                if rc == 1 and cid == a.id:
                    break
    finally:
        if a.phase != "keep":
            sh("git -C /repo checkout -- .")
    res["check_runs"] = runs
    res["detected_by"] = sorted({r["check"] for r in runs if r["exit"] == 1})
    if src != dstdir:
        shutil.copy(patch, os.path.join(dstdir, "patch.diff"))
        shutil.copy(os.path.join(src, a.demo), os.path.join(dstdir, demo_name + ".txt"))
    for x in extras:
        if src != dstdir:
            shutil.copy(os.path.join(src, x), os.path.join(dstdir, os.path.basename(x).replace(".txt", "").lstrip("_") + ".txt"))
    if src != dstdir and os.path.exists(os.path.join(src, "notes.md")):
        shutil.copy(os.path.join(src, "notes.md"), os.path.join(dstdir, "notes.md"))
    meta = {
        "breaks_property": a.id,
        "demonstration": {"file": demo_name + ".txt", "copy_to_package_dir": a.pkg, "as": demo_name, "helpers": [os.path.basename(x).replace(".txt", "").lstrip("_") for x in extras], "command": cmd},
        "needs_to_manifest": "see notes.md",
        "confirmed": {k: res[k] for k in ("build_ok", "existing_suite_passes_with_change", "demo_fails_with_change", "demo_passes_without_change")},
        "what_was_run": res,
    }
    json.dump(meta, open(os.path.join(dstdir, "meta.json"), "w"), indent=1)
    if os.path.exists(os.path.join(dstdir, ".confirm.json")):
        os.remove(os.path.join(dstdir, ".confirm.json"))
    print("-> %s detected_by=%s" % (dstdir, res["detected_by"]))


if __name__ == "__main__":
    main()
