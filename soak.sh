#!/bin/bash
# Runs every registered quick check at the given seeds; prints one line per run.
# usage: ./soak.sh "11 12 13" [tier]
seeds=${1:-"1 2 3"}
tier=${2:-quick}
ids=$(python3 -c "import json;print(' '.join(c['property_id'] for c in json.load(open('MANIFEST.json'))['checks']))")
for s in $seeds; do
  for id in $ids; do
    start=$(date +%s)
    out=$(VERIF_SEED=$s ./check $id --tier $tier 2>&1)
    rc=$?
    echo "seed=$s $id rc=$rc $(( $(date +%s) - start ))s $(echo "$out" | grep -E '^(OK|VIOLATION|INCONCLUSIVE|KNOWN-FINDING)' | head -3 | tr '\n' ' ')"
  done
done
